#!/bin/bash
# MANIFEST.setup_cmd: offline build of the harness in the profiles the quick tier needs.
set -e
cd "$(dirname "${BASH_SOURCE[0]}")"
export CARGO_NET_OFFLINE=true
./check build release
./check build chk
echo "setup ok"
