#!/bin/bash
# MANIFEST.setup_cmd: offline build of the harness in every variant the quick tier needs.
set -e
cd "$(dirname "${BASH_SOURCE[0]}")"
export CARGO_NET_OFFLINE=true
for v in release chk nopf sched miri; do ./check build "$v"; done
echo "setup ok"
