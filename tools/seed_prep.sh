#!/bin/bash
# tools/seed_prep.sh <round>: one scratch worktree of /repo per claimed property under /tmp/wt<round>_<id>, holding only
# the property text and the list of ideas already used for it (never anything else from /verif).
R="$1"
cd "$(dirname "${BASH_SOURCE[0]}")/.."
for P in C02 C03 C08 C09 C11 C12 C13 C18; do
  WT=/tmp/wt${R}_$P
  git -C /repo worktree remove --force "$WT" 2>/dev/null
  git -C /repo worktree add --detach "$WT" HEAD >/dev/null 2>&1 || { echo "cannot add $WT"; continue; }
  mkdir -p "$WT/_out"
  python3 - "$P" "$WT" <<'PY'
import json,sys,glob,os,re
p,wt=sys.argv[1:3]
for l in open('properties.jsonl'):
    d=json.loads(l)
    if d['id']==p:
        json.dump(d,open(f'{wt}/_out/PROPERTY.json','w'),indent=1)
rows={}
for l in open('DESIGN.md'):
    m=re.match(r'\| ('+p+r'-[AB](?:-r\d+)?) \| ([^|]*) \|',l)
    if m: rows[m.group(1)]=m.group(2).strip()
out=[f'# Ideas already used for {p} (do not reuse, nor close variants)\n']
for dname in sorted(glob.glob(f'seeded/{p}-*')):
    i=os.path.basename(dname)
    head=''
    try:
        for l in open(f'{dname}/notes.md'):
            if l.strip():
                head=l.strip().lstrip('# ').strip(); break
    except Exception: pass
    out.append(f'- {head[:300]}  [needs: {rows.get(i,"see heading")}]')
open(f'{wt}/_out/ALREADY_USED.md','w').write('\n'.join(out)+'\n')
PY
  echo "$WT: $(wc -l < $WT/_out/ALREADY_USED.md) used ideas"
done
