#!/bin/bash
# tools/mutant_baseline.sh <patch>: does the baseline suite (64 unit tests + doc tests) still pass with the patch?
PATCH="$(readlink -f "$1")"
WT=/tmp/qsim-confirm-wt
if [ ! -d "$WT" ]; then git -C /repo worktree add -q --detach "$WT" HEAD || exit 3; fi
cd "$WT" && git checkout -q --detach "$(git -C /repo rev-parse HEAD)" && git checkout -q -- . && rm -rf tests
export CARGO_NET_OFFLINE=true
git apply --whitespace=nowarn -p1 "$PATCH" || { echo "BASELINE $(basename $PATCH) patch-does-not-apply"; exit 1; }
suite=$(cargo test --workspace --offline --no-fail-fast 2>&1 | grep -E "^test result|^error" | sed 's/; 0 ignored.*//' | tr '\n' ';')
git checkout -q -- . ; rm -f example.qwt256
if echo "$suite" | grep -q "64 passed" && ! echo "$suite" | grep -q "FAILED\|^error"; then echo "BASELINE $(basename $PATCH) passes"; else echo "BASELINE $(basename $PATCH) FAILS: $suite" | cut -c1-300; fi
