#!/bin/bash
# tools/selfcheck_mutants.sh: sensitivity self-check. Every seeded change (seeded/*/patch.diff) and every own mutant
# (mutants/<prop>-*.patch) must make the quick check of its property report a violation; the unchanged copy must not.
cd "$(dirname "${BASH_SOURCE[0]}")/.."
fail=0; n=0
for d in seeded/*/; do
  id=$(basename "$d"); p=${id%%-*}
  r=$(MUT_LINES=1 tools/mutant_run.sh "$d/patch.diff" "$p" 2>&1 | tail -1)
  n=$((n+1)); echo "$id: $r"; echo "$r" | grep -q "exit=1" || fail=$((fail+1))
done
for m in mutants/*.patch; do
  id=$(basename "$m" .patch); p=${id%%-*}
  r=$(MUT_LINES=1 tools/mutant_run.sh "$m" "$p" 2>&1 | tail -1)
  n=$((n+1)); echo "$id: $r"; echo "$r" | grep -q "exit=1" || fail=$((fail+1))
done
# the unchanged copy must stay quiet (an empty patch)
: > /tmp/qsim-empty.patch
for p in C02 C03 C08 C09 C11 C12 C13 C18; do
  r=$(MUT_LINES=1 tools/mutant_run.sh /tmp/qsim-empty.patch "$p" 2>&1 | tail -1)
  echo "unchanged/$p: $r"; echo "$r" | grep -q "exit=0" || fail=$((fail+1))
done
rm -f /tmp/qsim-empty.patch
echo "selfcheck mutants: $n changes + 8 unchanged runs, $fail unexpected outcomes"
[ $fail = 0 ]
