#!/bin/bash
# tools/confirm_seeded.sh <dir-with-patch-and-demo> <name (e.g. C08-A)> <patch file> <demo file>
# Confirms a seeded change in a scratch worktree of /repo (outside /repo and /verif): the patch applies, the crate
# compiles, the 64 baseline tests and the doc tests pass, the demo fails with the change and passes without it.
set -u
PATCH="$(readlink -f "$1")"; DEMO="$(readlink -f "$2")"; NAME="$3"
WT=/tmp/qsim-confirm-wt
if [ ! -d "$WT" ]; then git -C /repo worktree add -q --detach "$WT" HEAD || exit 3; fi
cd "$WT" && git checkout -q --detach "$(git -C /repo rev-parse HEAD)" && git checkout -q -- . && rm -rf tests
export CARGO_NET_OFFLINE=true
res() { echo "CONFIRM $NAME $1"; }
git apply --check "$PATCH" || { res "patch-does-not-apply"; exit 1; }
mkdir -p tests && cp "$DEMO" tests/demo_seeded.rs
clean_demo=$(cargo test --offline --test demo_seeded 2>&1 | grep -E "^test result" | head -1)
git apply "$PATCH"
build=$(cargo build --offline --lib 2>&1 | grep -cE "^error")
rm -rf tests
suite=$(cargo test --workspace --offline --no-fail-fast 2>&1 | grep -E "^test result" | sed 's/; 0 ignored.*//' | tr '\n' ';')
mkdir -p tests && cp "$DEMO" tests/demo_seeded.rs
mut_demo=$(cargo test --offline --test demo_seeded 2>&1 | grep -E "^test result|signal: |process didn't exit successfully" | head -1)
[ -z "$mut_demo" ] && mut_demo="FAILED (no test result line)"
git checkout -q -- . ; rm -rf tests example.qwt256
echo "  clean demo : $clean_demo"
echo "  build errs : $build"
echo "  suite      : $suite"
echo "  mutant demo: $mut_demo"
ok=1
echo "$clean_demo" | grep -q "ok. 1 passed" || ok=0
[ "$build" = "0" ] || ok=0
echo "$suite" | grep -q "FAILED\|failed; [1-9]" && ok=0
echo "$suite" | grep -q "64 passed" || ok=0
echo "$mut_demo" | grep -q "FAILED\|signal: \|didn't exit successfully" || ok=0
[ $ok = 1 ] && res confirmed || res NOT-CONFIRMED
