#!/bin/bash
# tools/seed_intake.sh <worktree> <prop> <A|B> <seed-id>: confirm a sub-agent's change, run the check against it, store it.
WT="$1"; P="$2"; V="$3"; ID="$4"
cd "$(dirname "${BASH_SOURCE[0]}")/.."
c=$(tools/confirm_seeded.sh "$WT/_out/$V.patch.diff" "$WT/_out/${V}_demo.rs" "$ID" 2>&1 | grep "^CONFIRM")
echo "$c"
r=$(MUT_LINES=3 tools/mutant_run.sh "$WT/_out/$V.patch.diff" "$P" 2>&1 | grep -v "^VIOLATION\|^KNOWN" | cut -c1-300)
echo "$r"
mkdir -p "seeded/$ID"
cp "$WT/_out/$V.patch.diff" "seeded/$ID/patch.diff"; cp "$WT/_out/${V}_demo.rs" "seeded/$ID/demo.rs"; cp "$WT/_out/${V}_notes.md" "seeded/$ID/notes.md"
python3 - "$ID" "$P" "$c" "$r" <<'PY'
import json,sys,subprocess
id_,p,c,r=sys.argv[1:5]
head=subprocess.check_output(["git","-C","/repo","rev-parse","--short","HEAD"],text=True).strip()
notes=open(f"seeded/{id_}/notes.md").read()
meta={"id":id_,"breaks_property":p,
 "origin":"independent sub-agent given only the property text (plus a hint about which aspect to target) and a scratch worktree of /repo at "+head,
 "needs_to_manifest":"see notes.md",
 "confirmed":{"how":"tools/confirm_seeded.sh in a scratch worktree: patch applies to HEAD, crate compiles, 64 unit tests + doc tests pass with the change, demo.rs passes without the change and fails with it","result":c.strip()},
 "detected_by":{"command":f"tools/mutant_run.sh seeded/{id_}/patch.diff {p}","result":"VIOLATION, exit 1" if "exit=1" in r else "NOT DETECTED: "+r[-200:], "first_lines":r.splitlines()[:2]}}
json.dump(meta,open(f"seeded/{id_}/meta.json","w"),indent=1)
PY
