#!/bin/bash
# tools/mutant_run.sh <patch.diff> <prop> [tier]   (sensitivity check, never touches /repo)
# Copies /repo's working tree to a scratch directory outside /repo and /verif, applies the patch there, runs
# the registered check of <prop> against the copy with its own shadow manifest, target dir, evidence and replay
# directories, prints the check's verdict, and removes the scratch directory with its build output.
set -u
PATCH="$(readlink -f "$1")"; PROP="$2"; TIER="${3:-quick}"
VERIF_DIR="$(cd "$(dirname "${BASH_SOURCE[0]}")/.." && pwd)"
S="$(mktemp -d /tmp/qsim-mut-XXXXXX)"
trap 'rm -rf "$S"' EXIT
mkdir -p "$S/src-tree" "$S/verif"
rsync -a --exclude target --exclude .git /repo/ "$S/src-tree/"
if [ -s "$PATCH" ] && ! (cd "$S/src-tree" && git init -q . && git apply --whitespace=nowarn "$PATCH"); then echo "MUTANT-RESULT $PROP patch-does-not-apply"; exit 3; fi
# the copy sees the committed known findings but writes evidence/replays into the scratch area
cp "$VERIF_DIR/known_findings.json" "$S/verif/" 2>/dev/null
# warm start: reuse the compiled dependencies
cp -a "$VERIF_DIR/target" "$S/target" 2>/dev/null || true
# the harness crate depends on ../shadow, so it is copied next to the scratch shadow manifest
rsync -a --exclude target "$VERIF_DIR/sim/" "$S/sim/"
QWT_SRC="$S/src-tree" QSIM_TARGET_DIR="$S/target" QSIM_SHADOW_DIR="$S/shadow" QSIM_SIM_DIR="$S/sim" QSIM_OUT_DIR="$S/verif" \
  "$VERIF_DIR/check" "$PROP" "$TIER" > "$S/out.log" 2>&1
code=$?
grep -E "^violation|^VIOLATION|^KNOWN|HARNESS|BUILD-FAILED|^summary" "$S/out.log" | cut -c1-400 | head -${MUT_LINES:-12}
if [ -n "${MUT_KEEP_REPLAYS:-}" ]; then mkdir -p "$MUT_KEEP_REPLAYS"; cp "$S"/verif/replays/* "$MUT_KEEP_REPLAYS"/ 2>/dev/null; fi
echo "MUTANT-RESULT $PROP exit=$code"
exit $code
