#!/usr/bin/env python3
"""Writes MANIFEST.json from the table below (single source of truth for claimed / not applicable)."""
import json, os, subprocess
HERE = os.path.dirname(os.path.abspath(__file__))

CLAIMED = {
 "C02": dict(
   technique="deterministic simulation: seeded search over hash-map enumeration orders (tie orders) x generated sequences, oracle = naive sequence model",
   text="Seeded exploration: every run builds one generated sequence under several simulator-chosen enumeration orders of the two hash maps of the Huffman builder (all orders for alphabets <= 6) and compares get/rank/rank_prefetch/select with the naive model, in a release-like and in a debug-assertion build. A clean batch is evidence over the orders and sequences drawn, not proof.",
   note="Trusted: the naive model; that H1/H2 are the only nondeterminism of construction (checked by the determinism self-check); every permutation is treated as reachable, as the statement quantifies over every order.",
   ref="DESIGN.md §3 C02"),
 "C03": dict(
   technique="deterministic simulation: seeded search over hash-map enumeration orders x generated sequences (HWT), WT as seam-free control, oracle = naive sequence model",
   text="As C02 with binary fragments: HWT under simulated enumeration orders, WT through the same sweep as the control for the shared binary machinery; release-like and debug-assertion builds.",
   note="Trusted: the naive model; H1/H2 are the only nondeterminism of HWT construction.",
   ref="DESIGN.md §3 C03"),
}


CLAIMED.update({
 "C08": dict(
   technique="deterministic simulation: seeded operation histories with lifecycle events (clone, clone_from, freeze/thaw, collect, persist+restart through a simulated disk with retryable faults) and fault injection at the caller-supplied source iterators of extend/collect (unhelpful size hints, early end, panic after j values), reference model Vec<bool> checked after every step",
   text="Seeded exploration of operation histories on BitVectorMut against a Vec<bool> model, with restart through the simulated disk and failing source iterators as generated operations; after a failed extend the vector must hold its old content plus the effect of some prefix of the yielded values; release-like and debug-assertion builds.",
   note="Trusted: the Vec<bool> model and the observation code; arguments are kept inside the documented preconditions.",
   ref="DESIGN.md §3 C08"),
 "C09": dict(
   technique="deterministic simulation with a cooperative fault point (buggify) at the prefetch sink: seeded perturbation of every prefetch position estimate; differential oracle rank_prefetch == rank; cross-build digest comparison (crate feature on/off)",
   text="Seeded exploration: the simulator makes the prefetch position estimate arbitrarily wrong at the sink (8 perturbation kinds, per-run probability and kind mask) and checks that no answer changes and nothing panics; rank_prefetch is compared with rank for valid and invalid arguments; answer digests are compared between builds with and without the prefetch feature.",
   note="Trusted: that prefetch_read_NTA is the only sink of the estimates (checked by reading); native runs cannot observe an out-of-bounds *read* that happens not to fault (qmiri has a mode for it, c09, which is not part of any tier: its cost under the interpreter could not be bounded).",
   ref="DESIGN.md §3 C09"),
 "C11": dict(
   technique="deterministic simulation of the byte-stream transport: simulated disk with an explicit fault script (short/interrupted/failed reads and writes, buffering knobs, sync, crash, torn tail), oracle = original value (==, identical bytes, identical answers)",
   text="Seeded exploration of values of all 19 serializable types x 5 bincode configurations x fault scripts on the simulated disk; full obligations when only retryable faults fired and the write was acknowledged, informational counts otherwise; fault-free and faulty configurations reported separately.",
   note="Trusted: the simulated disk; equality is the type's own PartialEq; queries that fault on the original for reasons owned by C01/C04 are not generated (listed in spec.rs).",
   ref="DESIGN.md §3 C11"),
 "C12": dict(
   technique="deterministic simulation: seeded call histories over {next, next_back, len, size_hint, nth, nth_back} ended by fold/rfold/count/last/min/max, including calls after exhaustion, on containers in four incarnations (built, reloaded, clone, clone_from), reference model VecDeque checked after every call",
   text="Seeded exploration of call histories on every iterator the library hands out, against a VecDeque model, including behaviour after exhaustion.",
   note="Trusted: the VecDeque model; the element sequence is the input sequence, as the statement says.",
   ref="DESIGN.md §3 C12"),
 "C13": dict(
   technique="deterministic simulation: seeded push/extend/clone/clone_from histories on the builder with mid-history snapshots and fault injection at the source iterators of extend/collect (unhelpful size hints, early end, panic after j values), reference model Vec<u8>",
   text="Seeded exploration of builder histories over all 12 integer types and arbitrary bit patterns against a Vec<u8> model of the two low bits; every built vector is observed through len/get/iteration (borrowing, consuming, skipping, internal) and clone equality.",
   note="Trusted: the Vec<u8> model.",
   ref="DESIGN.md §3 C13"),
 "C18": dict(
   technique="deterministic simulation of thread schedules: shuttle (seeded random and PCT schedulers, replayable schedules) over a shared reference with yield points between and inside queries; sequential purity histories; Send+Sync at compile time",
   text="Seeded search over thread schedules: 2-4 simulated threads query one shared structure, every answer is compared with the single-thread answer and the serialized form is compared before/after; plus sequential purity histories (also over two values and over values that were reloaded, cloned or overwritten by clone_from), purity-only scenarios on larger structures, Miri executions with real threads (quick and thorough tier), and a compile-time Send+Sync assertion for every public type. Today the structures have no interior mutability, so the check passes trivially; its value is against changes.",
   note="Trusted: shuttle's scheduler; context switches happen only at the H4 yield points and between queries (the Miri engine, run in both tiers, pre-empts anywhere and detects data races).",
   ref="DESIGN.md §3 C18"),
})

NOT_APPLICABLE = {
 "C01": "pure function of the input sequence and the query arguments: no schedule, fault, crash point or history to search (DESIGN.md §4)",
 "C04": "totality/memory safety over the argument domain is decided by sanitizer-instrumented builds driven over inputs; no interleaving, fault or history enters the statement (DESIGN.md §4)",
 "C05": "pure: RSQVector is built once, deterministically, and only read (DESIGN.md §4)",
 "C06": "pure: RSNarrow/RSWide are built once, deterministically, and only read (DESIGN.md §4)",
 "C07": "pure: DArray is built once, deterministically, and only read (DESIGN.md §4)",
 "C10": "pure: checked-vs-unchecked agreement on valid arguments; a build profile is a configuration to compile, not a fault to inject (DESIGN.md §4)",
 "C14": "pure: retained bytes are a function of the input and the construction path (DESIGN.md §4)",
 "C15": "pure: level-data size is the sum of frequency x code length, identical for every enumeration order the only nondeterministic seam can produce (DESIGN.md §4)",
 "C16": "pure: space_usage_byte() versus live bytes is a function of the input (DESIGN.md §4)",
 "C17": "pure word-level functions of their arguments (DESIGN.md §4)",
 "C19": "pure; its one nondeterminism-dependent clause (Huffman trees built by different paths answer identically) is implied by C02/C03, where every path and order is held to the same model (DESIGN.md §4)",
}

PENDING = {}

def main():
    props = [json.loads(l)["id"] for l in open(os.path.join(HERE, "properties.jsonl"))]
    for p in props:
        assert p in CLAIMED or p in NOT_APPLICABLE or p in PENDING, p
    try:
        commits = subprocess.check_output(["git", "-C", "/repo", "log", "--format=%H %s"], text=True).splitlines()
    except Exception:
        commits = []
    hook_commits = [c.split()[0] for c in commits if " verif hooks" in c or " verif hook" in c]
    checks = []
    for p in props:
        if p not in CLAIMED:
            continue
        c = CLAIMED[p]
        checks.append({
            "property_id": p,
            "quick_cmd": f"./check {p} quick",
            "thorough_cmd": f"./check {p} thorough",
            "evidence_file": f"/verif/evidence/{p}.json",
            "replay_cmd_template": "./check replay {path}",
            "engine": "qsim",
            "level_claimed": {"category": "exploration", "text": c["text"], "design_ref": c["ref"]},
            "level_note": c["note"],
            "technique": c["technique"],
        })
    na = [{"property_id": p, "reason": r} for p, r in NOT_APPLICABLE.items()]
    na += [{"property_id": p, "reason": r} for p, r in PENDING.items()]
    na.sort(key=lambda x: x["property_id"])
    manifest = {
        "version": 1,
        "setup_cmd": "./setup.sh",
        "hooks": {
            "guard": "--cfg qwt_verif",
            "enable": "RUSTFLAGS='--cfg qwt_verif' via /verif/sim/.cargo/config.toml; qwt is compiled from /repo's working tree through the shadow manifest /verif/shadow/Cargo.toml ([lib] path = /repo/src/lib.rs)",
            "baseline_off_cmd": "cd /repo && cargo test --workspace --no-fail-fast --offline",
            "source_commits": hook_commits,
            "add_only": True,
        },
        "engines": [
            {"name": "qsim", "path": "/verif/sim", "serves_properties": sorted(CLAIMED),
             "kind_free_text": "seeded deterministic simulator: PRNG-chosen hash-map enumeration orders, operation histories, simulated disk with short/interrupted/failed/torn I/O, prefetch fault point, shuttle-controlled thread schedules; worker processes, minimiser, replay files"},
        ],
        "checks": checks,
        "not_applicable": na,
        "notes": "Technique family: deterministic simulation with fault injection. Exit codes of every check: 0 held (possibly with KNOWN-FINDING lines), 1 VIOLATION, 2 harness/build error. VERIF_SEED defaults to 1.",
    }
    json.dump(manifest, open(os.path.join(HERE, "MANIFEST.json"), "w"), indent=1)
    print("wrote MANIFEST.json:", len(checks), "checks,", len(na), "not applicable")

if __name__ == "__main__":
    main()
