//! Types shared by all property workloads: signatures, violations, run results, panic capture.

use std::cell::RefCell;
use std::collections::BTreeMap;
use std::panic::{catch_unwind, AssertUnwindSafe};

use serde::{Deserialize, Serialize};

/// What identifies a class of violation. Known findings are matched on all five fields.
#[derive(Clone, Debug, PartialEq, Eq, PartialOrd, Ord, Hash, Serialize, Deserialize)]
pub struct Sig {
    pub property: String,
    /// structure family (e.g. HQWT, HWT, WT, BitVectorMut, BitVectorIntoIter)
    pub family: String,
    /// operation that misbehaved (build, get, rank, select, count_ones, len, ...)
    pub op: String,
    /// outcome class: wrong_value | some_for_none | none_for_some | panic:<kind> | died:<signal> | not_equal | ...
    pub class: String,
    /// small predicate over the case that separates unrelated causes
    pub shape: String,
}

impl Sig {
    pub fn key(&self) -> String {
        format!(
            "{}/{}/{}/{}/{}",
            self.property, self.family, self.op, self.class, self.shape
        )
    }
}

#[derive(Clone, Debug, Serialize, Deserialize)]
pub struct Violation {
    pub sig: Sig,
    pub detail: String,
}

/// Result of executing one case.
#[derive(Clone, Debug, Default)]
pub struct RunOut {
    pub digest: u64,
    pub viols: Vec<Violation>,
    /// additive counters: fault kinds fired, probes, shape statistics
    pub counters: BTreeMap<String, u64>,
    /// fingerprints of the distinct states this run reached (measure stated per property)
    pub fps: Vec<u64>,
    /// whether the case is non-trivial by the property's stated rule
    pub nontrivial: bool,
}

impl RunOut {
    pub fn count(&mut self, key: &str, by: u64) {
        if by > 0 {
            *self.counters.entry(key.to_string()).or_insert(0) += by;
        }
    }
    pub fn violate(&mut self, sig: Sig, detail: String) {
        if self.viols.len() < 16 && !self.viols.iter().any(|v| v.sig == sig) {
            self.viols.push(Violation { sig, detail });
        }
    }
}

thread_local! {
    static LAST_PANIC: RefCell<Option<String>> = const { RefCell::new(None) };
    static CATCH_DEPTH: std::cell::Cell<u32> = const { std::cell::Cell::new(0) };
}

/// Caps the address space of this process (workers and child executions only, never the supervisor, whose
/// children include the Miri interpreter). A library change that makes an iterator endless or pre-allocates
/// from an untrusted bound then ends in a failed allocation (abort, reported as a death of that run and
/// confirmed in isolation) instead of exhausting the machine. `QSIM_MEM_LIMIT_GB` (default 3: 16 workers then stay
/// below the 62 GB of this machine; 0 = no limit).
pub fn limit_memory() {
    let gb: u64 = std::env::var("QSIM_MEM_LIMIT_GB").ok().and_then(|s| s.parse().ok()).unwrap_or(3);
    if gb == 0 || cfg!(miri) {
        return;
    }
    #[cfg(all(target_os = "linux", not(miri)))]
    {
        extern "C" {
            fn setrlimit(resource: i32, rlim: *const [u64; 2]) -> i32;
        }
        const RLIMIT_AS: i32 = 9;
        let lim = [gb << 30, gb << 30];
        // SAFETY: plain libc call with a pointer to two u64 (struct rlimit on 64-bit Linux)
        unsafe {
            setrlimit(RLIMIT_AS, &lim);
        }
    }
}

/// Installs a panic hook that records message and location instead of printing them.
pub fn install_quiet_panic_hook() {
    std::panic::set_hook(Box::new(|info| {
        let msg = if let Some(s) = info.payload().downcast_ref::<&str>() {
            s.to_string()
        } else if let Some(s) = info.payload().downcast_ref::<String>() {
            s.clone()
        } else {
            "<non-string panic payload>".to_string()
        };
        let loc = info
            .location()
            .map(|l| format!("{}:{}", l.file(), l.line()))
            .unwrap_or_default();
        if CATCH_DEPTH.with(|d| d.get()) == 0 {
            // not inside `catch`: this is a defect of the harness itself, never swallow it
            eprintln!("HARNESS-PANIC: {msg} @ {loc}");
        }
        LAST_PANIC.with(|p| *p.borrow_mut() = Some(format!("{msg} @ {loc}")));
    }));
}

/// Runs `f`, turning a panic into `Err(message @ file:line)`.
pub fn catch<T>(f: impl FnOnce() -> T) -> Result<T, String> {
    CATCH_DEPTH.with(|d| d.set(d.get() + 1));
    let r = catch_unwind(AssertUnwindSafe(f));
    CATCH_DEPTH.with(|d| d.set(d.get() - 1));
    match r {
        Ok(v) => Ok(v),
        Err(_) => Err(LAST_PANIC
            .with(|p| p.borrow_mut().take())
            .unwrap_or_else(|| "<panic without message>".to_string())),
    }
}

/// Coarse kind of a panic message, stable across line-number changes.
pub fn panic_kind(msg: &str) -> &'static str {
    let m = msg;
    if m.contains("index out of bounds") || m.contains("out of range for slice") || m.contains("range end index") || m.contains("range start index") {
        "panic:index_out_of_bounds"
    } else if m.contains("overflow") {
        "panic:arithmetic_overflow"
    } else if m.contains("called `Option::unwrap()` on a `None` value") {
        "panic:unwrap_none"
    } else if m.contains("assertion") {
        "panic:assertion"
    } else if m.contains("could not translate symbol") || m.contains("error while finding max code length") || m.contains("some error occurred during code translation") {
        "panic:expect_failed"
    } else if m.contains("harness bug") {
        "panic:harness_bug"
    } else {
        "panic:other"
    }
}

/// Which tier a batch runs at.
#[derive(Clone, Copy, Debug, PartialEq, Eq, Serialize, Deserialize)]
pub enum Tier {
    Quick,
    Thorough,
}

impl Tier {
    pub fn name(self) -> &'static str {
        match self {
            Tier::Quick => "quick",
            Tier::Thorough => "thorough",
        }
    }
    pub fn parse(s: &str) -> Option<Tier> {
        match s {
            "quick" => Some(Tier::Quick),
            "thorough" => Some(Tier::Thorough),
            _ => None,
        }
    }
}

/// An iterator whose `size_hint` is legal but unhelpful: the bounds enclose the true length, nothing more
/// (what `filter`, `take_while` or `flat_map` over a larger source report). `inner` must report exact hints.
pub struct Hinted<I> {
    pub inner: I,
    pub style: u8,
}

pub const HINT_STYLES: u8 = 6;

impl<I: Iterator> Iterator for Hinted<I> {
    type Item = I::Item;
    fn next(&mut self) -> Option<I::Item> {
        self.inner.next()
    }
    fn size_hint(&self) -> (usize, Option<usize>) {
        let (lo, _) = self.inner.size_hint();
        match self.style {
            0 => self.inner.size_hint(),
            1 => (0, None),
            // over-estimates by more than a 512-bit line, like a filter that drops a third of its source
            2 => (lo.min(1), Some(lo + 513 + lo / 2)),
            3 => (0, Some(usize::MAX)),
            4 => (lo.min(1), Some(1usize << 62)),
            _ => (0, Some((1usize << 63) + 5)),
        }
    }
}

/// What a source iterator handed to `extend` / `collect` may do besides yielding its values.
#[derive(Clone, Copy, Debug, PartialEq, Eq, Serialize, Deserialize)]
pub enum SourceFault {
    /// panics when asked for value number `j` (0-based), after yielding `j` values; the caller catches the panic and
    /// keeps using the collection
    PanicAfter(usize),
    /// returns `None` once after `j` values although more are available (a non-fused source polled again would go
    /// on): the values of the sequence are the first `j`
    NoneAfter(usize),
}

pub const SOURCE_FAULT_MARK: &str = "SIMULATED-SOURCE-FAULT";

/// A source iterator under the simulator's control (the seam through which `Extend` / `FromIterator` meet faults).
pub struct FaultySource<I> {
    pub inner: I,
    pub fault: SourceFault,
    pub yielded: usize,
    pub none_given: bool,
}

impl<I: Iterator> FaultySource<I> {
    pub fn new(inner: I, fault: SourceFault) -> Self {
        FaultySource { inner, fault, yielded: 0, none_given: false }
    }
}

impl<I: Iterator> Iterator for FaultySource<I> {
    type Item = I::Item;
    fn next(&mut self) -> Option<I::Item> {
        match self.fault {
            SourceFault::PanicAfter(j) if self.yielded == j => {
                panic!("{SOURCE_FAULT_MARK}: the source iterator fails after {j} values")
            }
            SourceFault::NoneAfter(j) if self.yielded == j && !self.none_given => {
                self.none_given = true;
                return None;
            }
            _ => {}
        }
        let x = self.inner.next();
        if x.is_some() {
            self.yielded += 1;
        }
        x
    }
    fn size_hint(&self) -> (usize, Option<usize>) {
        (0, None)
    }
}
