//! The only source of randomness in the harness: splitmix64 for seeding/derivation, xoshiro256** for streams.
//! No ambient seeding anywhere: every stream descends from VERIF_SEED.

pub fn splitmix64(state: &mut u64) -> u64 {
    *state = state.wrapping_add(0x9E37_79B9_7F4A_7C15);
    let mut z = *state;
    z = (z ^ (z >> 30)).wrapping_mul(0xBF58_476D_1CE4_E5B9);
    z = (z ^ (z >> 27)).wrapping_mul(0x94D0_49BB_1331_11EB);
    z ^ (z >> 31)
}

pub fn mix(a: u64, b: u64) -> u64 {
    let mut s = a ^ b.rotate_left(32) ^ 0xD6E8_FEB8_6659_FD93;
    let x = splitmix64(&mut s);
    x ^ splitmix64(&mut s).rotate_left(17)
}

/// FNV-1a over bytes, used for labels and digests (deterministic, no hidden key).
pub fn fnv(bytes: &[u8]) -> u64 {
    let mut h: u64 = 0xcbf2_9ce4_8422_2325;
    for &b in bytes {
        h ^= b as u64;
        h = h.wrapping_mul(0x0000_0100_0000_01B3);
    }
    h
}

/// Seed of run `r` of property `prop` under `VERIF_SEED = seed`.
pub fn run_seed(seed: u64, prop: &str, r: u64) -> u64 {
    mix(mix(seed, fnv(prop.as_bytes())), r.wrapping_mul(0x9E37_79B9_7F4A_7C15))
}

/// Independent labelled stream below a run seed.
pub fn stream(run_seed: u64, label: &str) -> Rng {
    Rng::new(mix(run_seed, fnv(label.as_bytes())))
}

#[derive(Clone, Debug)]
pub struct Rng {
    s: [u64; 4],
}

impl Rng {
    pub fn new(seed: u64) -> Self {
        let mut sm = seed;
        let s = [
            splitmix64(&mut sm),
            splitmix64(&mut sm),
            splitmix64(&mut sm),
            splitmix64(&mut sm),
        ];
        Rng { s }
    }

    pub fn next_u64(&mut self) -> u64 {
        let result = self.s[1].wrapping_mul(5).rotate_left(7).wrapping_mul(9);
        let t = self.s[1] << 17;
        self.s[2] ^= self.s[0];
        self.s[3] ^= self.s[1];
        self.s[1] ^= self.s[2];
        self.s[0] ^= self.s[3];
        self.s[2] ^= t;
        self.s[3] = self.s[3].rotate_left(45);
        result
    }

    pub fn next_u128(&mut self) -> u128 {
        ((self.next_u64() as u128) << 64) | self.next_u64() as u128
    }

    /// Uniform in 0..n (n > 0).
    pub fn below(&mut self, n: u64) -> u64 {
        debug_assert!(n > 0);
        // multiply-shift; bias is irrelevant here
        ((self.next_u64() as u128 * n as u128) >> 64) as u64
    }

    pub fn usize_below(&mut self, n: usize) -> usize {
        self.below(n as u64) as usize
    }

    /// Uniform in lo..=hi.
    pub fn range(&mut self, lo: u64, hi: u64) -> u64 {
        debug_assert!(lo <= hi);
        if lo == 0 && hi == u64::MAX {
            return self.next_u64();
        }
        lo + self.below(hi - lo + 1)
    }

    pub fn urange(&mut self, lo: usize, hi: usize) -> usize {
        self.range(lo as u64, hi as u64) as usize
    }

    pub fn chance(&mut self, num: u64, den: u64) -> bool {
        self.below(den) < num
    }

    pub fn bool(&mut self) -> bool {
        self.next_u64() & 1 == 1
    }

    pub fn pick<'a, T>(&mut self, xs: &'a [T]) -> &'a T {
        &xs[self.usize_below(xs.len())]
    }

    pub fn shuffle<T>(&mut self, xs: &mut [T]) {
        for i in (1..xs.len()).rev() {
            let j = self.usize_below(i + 1);
            xs.swap(i, j);
        }
    }
}

/// Incremental 64-bit digest of an event log (order-sensitive).
#[derive(Clone, Debug)]
pub struct Digest(pub u64);

impl Default for Digest {
    fn default() -> Self {
        Digest(0x1234_5678_9ABC_DEF1)
    }
}

impl Digest {
    pub fn u64(&mut self, x: u64) {
        self.0 = mix(self.0, x);
    }
    pub fn u128(&mut self, x: u128) {
        self.u64(x as u64);
        self.u64((x >> 64) as u64);
    }
    pub fn opt_usize(&mut self, x: Option<usize>) {
        match x {
            None => self.u64(0x4e4f4e45),
            Some(v) => {
                self.u64(1);
                self.u64(v as u64)
            }
        }
    }
    pub fn opt_u128(&mut self, x: Option<u128>) {
        match x {
            None => self.u64(0x4e4f4e45),
            Some(v) => {
                self.u64(1);
                self.u128(v)
            }
        }
    }
    pub fn bytes(&mut self, b: &[u8]) {
        self.u64(fnv(b));
        self.u64(b.len() as u64);
    }
    pub fn str(&mut self, s: &str) {
        self.bytes(s.as_bytes());
    }
}
