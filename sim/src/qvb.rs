//! C13: quad vector builder under push / extend / clone histories, against `Vec<u8>` of `v mod 4`.

use qwt::{AccessQuad, QVector, QVectorBuilder};
use serde::{Deserialize, Serialize};

use crate::core::{catch, panic_kind, RunOut, Sig, Tier};
use crate::ds::Sym;
use crate::prng::{stream, Digest, Rng};

#[derive(Clone, Copy, Debug, PartialEq, Eq, Serialize, Deserialize)]
pub enum IntTy {
    I8,
    I16,
    I32,
    I64,
    I128,
    Isize,
    U8,
    U16,
    U32,
    U64,
    U128,
    Usize,
}
const INT_TYS: [IntTy; 12] = [
    IntTy::I8,
    IntTy::I16,
    IntTy::I32,
    IntTy::I64,
    IntTy::I128,
    IntTy::Isize,
    IntTy::U8,
    IntTy::U16,
    IntTy::U32,
    IntTy::U64,
    IntTy::U128,
    IntTy::Usize,
];

/// Values are stored as raw 128-bit patterns and cast (`as`) to the element type when used.
#[derive(Clone, Debug, PartialEq, Serialize, Deserialize)]
pub enum QOp {
    Push(u8),
    Extend(IntTy, Vec<Sym>),
    Clone,
    /// observe: build a clone and compare with the model
    Snapshot,
    /// `dst.clone_from(&builder)` into an existing builder holding this many symbols; continue on `dst`
    CloneFrom(usize),
    /// `extend` from a source that fails (panic caught by the caller, who keeps using the builder) or that
    /// reports its end before it is exhausted
    ExtendFaulty(IntTy, Vec<Sym>, SourceFault),
}

#[derive(Clone, Debug, PartialEq, Serialize, Deserialize)]
pub enum QInit {
    New,
    WithCapacity(usize),
    BuilderFromIter(IntTy, Vec<Sym>),
    /// `QVector::from_iter` directly; `ops` are ignored
    VectorFromIter(IntTy, Vec<Sym>),
    /// `QVector::from_iter` from a source that reports its end after `j` values although it could go on
    VectorFromBursts(IntTy, Vec<Sym>, usize),
    /// `QVectorBuilder::default()`
    BuilderDefault,
    /// `QVector::default()`; `ops` are ignored
    VectorDefault,
}

#[derive(Clone, Debug, PartialEq, Serialize, Deserialize)]
pub struct QvbCase {
    pub init: QInit,
    pub ops: Vec<QOp>,
}

fn bits_of(ty: IntTy) -> u32 {
    match ty {
        IntTy::I8 | IntTy::U8 => 8,
        IntTy::I16 | IntTy::U16 => 16,
        IntTy::I32 | IntTy::U32 => 32,
        IntTy::I64 | IntTy::U64 | IntTy::Isize | IntTy::Usize => 64,
        IntTy::I128 | IntTy::U128 => 128,
    }
}

fn gen_vals(rng: &mut Rng, ty: IntTy, n: usize) -> Vec<Sym> {
    let b = bits_of(ty);
    let mask = if b == 128 { u128::MAX } else { (1u128 << b) - 1 };
    let style = rng.below(7);
    (0..n)
        .map(|_| {
            let v = match style {
                // one symbol never occurs (no 0 / no 3 among the low bits)
                5 => 1 + rng.below(3) as u128,
                6 => rng.below(3) as u128 | (rng.below(64) as u128) << 2,
                0 => rng.below(4) as u128,                        // proper symbols
                1 => rng.next_u128(),                             // anything, negative included
                2 => (rng.below(4) as u128) | (mask & !3),        // all high bits set: negative for signed types
                3 => *rng.pick(&[0u128, 3, 4, 255, 256, mask, mask >> 1, (mask >> 1) + 1]),
                _ => rng.below(300) as u128,
            };
            Sym(v & mask)
        })
        .collect()
}

fn gen_count(rng: &mut Rng) -> usize {
    match rng.below(8) {
        0 => 0,
        1 | 2 => rng.urange(1, 9),
        3 | 4 => *rng.pick(&[127usize, 128, 129, 255, 256, 257, 383, 384, 385, 511, 512, 513, 639, 640, 641, 896, 1024, 1152]),
        _ => rng.urange(9, 400),
    }
}

pub fn gen_case(run_seed: u64, _tier: Tier) -> QvbCase {
    let mut rng = stream(run_seed, "workload");
    let init = match rng.below(60) {
        56 | 57 => {
            let ty = *rng.pick(&INT_TYS);
            let n = gen_count(&mut rng).max(1);
            let j = match rng.below(3) {
                0 => (n / 256) * 256,
                _ => rng.usize_below(n + 1),
            };
            QInit::VectorFromBursts(ty, gen_vals(&mut rng, ty, n), j.min(n))
        }
        58 => QInit::BuilderDefault,
        59 => QInit::VectorDefault,
        x => match x % 6 {
        0 | 1 => QInit::New,
        2 => QInit::WithCapacity(gen_count(&mut rng)),
        3 => {
            let ty = *rng.pick(&INT_TYS);
            let n = gen_count(&mut rng);
            QInit::BuilderFromIter(ty, gen_vals(&mut rng, ty, n))
        }
        _ => {
            let ty = *rng.pick(&INT_TYS);
            // one in forty: beyond 64 lines (16 384 symbols), where a blocked construction would start over
            let n = if rng.chance(1, 40) { rng.urange(16_000, 40_000) } else { gen_count(&mut rng) };
            QInit::VectorFromIter(ty, gen_vals(&mut rng, ty, n))
        }
        },
    };
    let n_ops = rng.urange(0, 30);
    let push_heavy = rng.chance(1, 3);
    let ops = (0..n_ops)
        .map(|_| match rng.below(if push_heavy { 30 } else { 10 }) {
            0 | 1 => {
                let ty = *rng.pick(&INT_TYS);
                let n = gen_count(&mut rng);
                QOp::Extend(ty, gen_vals(&mut rng, ty, n))
            }
            2 => QOp::Clone,
            3 => QOp::Snapshot,
            5 if rng.chance(1, 3) => {
                let ty = *rng.pick(&INT_TYS);
                let n = gen_count(&mut rng).max(1);
                let j = match rng.below(3) {
                    0 => ((n / 256) * 256).min(n),
                    _ => rng.usize_below(n + 1),
                };
                QOp::ExtendFaulty(ty, gen_vals(&mut rng, ty, n), if rng.bool() { SourceFault::PanicAfter(j) } else { SourceFault::NoneAfter(j) })
            }
            4 if rng.bool() => QOp::CloneFrom(*rng.pick(&[0usize, 1, 255, 256, 257, 300, 512, 513, 700, 1100])),
            _ => QOp::Push(rng.below(256) as u8),
        })
        .collect();
    QvbCase { init, ops }
}

use crate::core::{FaultySource, Hinted, SourceFault, SOURCE_FAULT_MARK};

macro_rules! with_ty {
    ($ty:expr, $vals:expr, |$it:ident| $body:expr) => {
        match $ty {
            IntTy::I8 => { let $it = $vals.iter().map(|s| s.0 as i8); $body }
            IntTy::I16 => { let $it = $vals.iter().map(|s| s.0 as i16); $body }
            IntTy::I32 => { let $it = $vals.iter().map(|s| s.0 as i32); $body }
            IntTy::I64 => { let $it = $vals.iter().map(|s| s.0 as i64); $body }
            IntTy::I128 => { let $it = $vals.iter().map(|s| s.0 as i128); $body }
            IntTy::Isize => { let $it = $vals.iter().map(|s| s.0 as isize); $body }
            IntTy::U8 => { let $it = $vals.iter().map(|s| s.0 as u8); $body }
            IntTy::U16 => { let $it = $vals.iter().map(|s| s.0 as u16); $body }
            IntTy::U32 => { let $it = $vals.iter().map(|s| s.0 as u32); $body }
            IntTy::U64 => { let $it = $vals.iter().map(|s| s.0 as u64); $body }
            IntTy::U128 => { let $it = $vals.iter().map(|s| s.0 as u128); $body }
            IntTy::Usize => { let $it = $vals.iter().map(|s| s.0 as usize); $body }
        }
    };
}

fn sig(op: &str, class: &str, shape: &str) -> Sig {
    Sig {
        property: "C13".into(),
        family: "QVector".into(),
        op: op.into(),
        class: class.into(),
        shape: shape.into(),
    }
}

/// Compares a built vector with the model.
fn observe(qv: &QVector, m: &[u8], at: &str, out: &mut RunOut, digest: &mut Digest) {
    let n = m.len();
    let chk = |out: &mut RunOut, op: &str, got: String, exp: String, what: String| {
        if got != exp {
            let class = if got == "None" { "none_for_some" } else if exp == "None" { "some_for_none" } else { "wrong_value" };
            out.violate(sig(op, class, "general"), format!("{at}: {what} returned {got}, the pushed values give {exp}"));
        }
    };
    match catch(|| (qv.len(), qv.is_empty())) {
        Ok((l, e)) => {
            digest.u64(l as u64);
            chk(out, "len", format!("{l}"), format!("{n}"), "len()".into());
            chk(out, "is_empty", format!("{e}"), format!("{}", n == 0), "is_empty()".into());
        }
        Err(msg) => out.violate(sig("len", panic_kind(&msg), "general"), format!("{at}: len()/is_empty() panicked: {msg}")),
    }
    for i in (0..n).chain([n, n + 1, usize::MAX, 1usize << 63, (1usize << 63) + n / 2, (1usize << 63) + n.saturating_sub(1)]) {
        match catch(|| qv.get(i)) {
            Ok(g) => {
                digest.u64(g.map_or(9, |x| x as u64));
                let e = m.get(i).copied();
                if g != e {
                    chk(out, "get", format!("{g:?}"), format!("{e:?}"), format!("get({i}) with len()={n}"));
                    break;
                }
            }
            Err(msg) => {
                out.violate(sig("get", panic_kind(&msg), "general"), format!("{at}: get({i}) with len()={n} panicked: {msg}"));
                break;
            }
        }
    }
    match catch(|| qv.iter().collect::<Vec<u8>>()) {
        Ok(v) => {
            if v != m {
                let first = v.iter().zip(m).position(|(a, b)| a != b).unwrap_or(v.len().min(m.len()));
                out.violate(
                    sig("iter", "wrong_value", "general"),
                    format!("{at}: iter() yields {} symbols and first differs from the pushed values at index {first} (len()={n})", v.len()),
                );
            }
        }
        Err(msg) => out.violate(sig("iter", panic_kind(&msg), "general"), format!("{at}: iter() panicked: {msg}")),
    }
    // once an iterator has returned None it keeps returning None (borrowing and consuming)
    match catch(|| {
        let mut a = qv.iter();
        let mut b = qv.clone().into_iter();
        for _ in 0..n {
            a.next();
            b.next();
        }
        let after_a: Vec<Option<u8>> = (0..4).map(|_| a.next()).collect();
        let after_b: Vec<Option<u8>> = (0..4).map(|_| b.next()).collect();
        (after_a, after_b)
    }) {
        Ok((a, b)) => {
            if a.iter().chain(b.iter()).any(|x| x.is_some()) {
                out.violate(sig("iter_after_end", "some_for_none", "general"), format!("{at}: after {n} x next() over {n} symbols four more next() calls returned {a:?} (borrowing) / {b:?} (consuming)"));
            }
        }
        Err(msg) => out.violate(sig("iter_after_end", panic_kind(&msg), "general"), format!("{at}: next() after the end of {n} symbols panicked: {msg}")),
    }
    // count(), last() and size_hint() of an iterator advanced by exactly k symbols (k = len: consumed, not over-polled)
    for k in [0usize, 1, n / 2, n.saturating_sub(1), n, n + 1] {
        let r = catch(|| {
            fn adv_by<I: Iterator>(mut it: I, k: usize) -> I {
                for _ in 0..k {
                    it.next();
                }
                it
            }
            let adv = |it| adv_by(it, k);
            let adv_owned = |it| adv_by(it, k);
            (
                adv(qv.iter()).last(),
                adv(qv.iter()).count(),
                adv(qv.iter()).size_hint(),
                adv_owned(qv.clone().into_iter()).last(),
                adv_owned(qv.clone().into_iter()).count(),
                (adv(qv.iter()).min(), adv(qv.iter()).max(), adv_owned(qv.clone().into_iter()).min(), adv_owned(qv.clone().into_iter()).max()),
            )
        });
        let rem = n.saturating_sub(k);
        let e_last = if rem > 0 { m.last().copied() } else { None };
        match r {
            Ok((l, c, (lo, hi), lo_, co, mm)) => {
                let e_mm = (m.iter().skip(k).copied().min(), m.iter().skip(k).copied().max());
                if (mm.0, mm.1) != e_mm || (mm.2, mm.3) != e_mm {
                    out.violate(sig("iter_min_max", "wrong_value", "general"), format!("{at}: after {k} x next() over {n} symbols (min(), max()) returned {:?} (borrowing) / {:?} (consuming), the pushed values give {e_mm:?}", (mm.0, mm.1), (mm.2, mm.3)));
                }
                if l != e_last || lo_ != e_last {
                    out.violate(sig("iter_last", "wrong_value", "general"), format!("{at}: after {k} x next() over {n} symbols last() returned {l:?} (borrowing) / {lo_:?} (consuming), the pushed values give {e_last:?}"));
                }
                if c != rem || co != rem {
                    out.violate(sig("iter_count", "wrong_value", "general"), format!("{at}: after {k} x next() over {n} symbols count() returned {c} (borrowing) / {co} (consuming), {rem} symbols are left"));
                }
                if lo > rem || hi.map_or(false, |h| h < rem) {
                    out.violate(sig("iter_size_hint", "wrong_value", "general"), format!("{at}: after {k} x next() over {n} symbols size_hint() returned ({lo}, {hi:?}), {rem} symbols are left"));
                }
            }
            Err(msg) => out.violate(sig("iter_last", panic_kind(&msg), "general"), format!("{at}: last()/count()/size_hint() after {k} x next() over {n} symbols panicked: {msg}")),
        }
    }
    // `for x in &qv` (IntoIterator for &QVector), bounded in case it does not end
    match catch(|| (&*qv).into_iter().take(n + 64).collect::<Vec<u8>>()) {
        Ok(v) => {
            if v != m {
                let first = v.iter().zip(m).position(|(a, b)| a != b).unwrap_or(v.len().min(m.len()));
                out.violate(
                    sig("ref_into_iter", "wrong_value", "general"),
                    format!("{at}: (&qv).into_iter() yields {} symbols and first differs from the pushed values at index {first} (len()={n})", v.len()),
                );
            }
        }
        Err(msg) => out.violate(sig("ref_into_iter", panic_kind(&msg), "general"), format!("{at}: (&qv).into_iter() panicked: {msg}")),
    }
    // the unchecked reader inside its precondition (i < len), and a clone compares equal and reads the same
    if n > 0 {
        for i in [0, n / 2, n - 1, (n - 1) / 256 * 256, (n - 1) / 128 * 128] {
            // SAFETY: i < n
            match catch(|| unsafe { qv.get_unchecked(i) }) {
                Ok(g) => {
                    if g != m[i] {
                        chk(out, "get_unchecked", format!("{g}"), format!("{}", m[i]), format!("get_unchecked({i}) with len()={n}"));
                    }
                }
                Err(msg) => out.violate(sig("get_unchecked", panic_kind(&msg), "general"), format!("{at}: get_unchecked({i}) with len()={n} panicked: {msg}")),
            }
        }
    }
    match catch(|| {
        let c = qv.clone();
        (c == *qv, c.len(), c.iter().take(n + 64).collect::<Vec<u8>>())
    }) {
        Ok((eq, l, v)) => {
            if !eq || l != n || v != m {
                out.violate(
                    sig("clone", "wrong_value", "general"),
                    format!("{at}: a clone of the vector compares equal: {eq}, has len() {l} (expected {n}) and yields {} symbols", v.len()),
                );
            }
        }
        Err(msg) => out.violate(sig("clone", panic_kind(&msg), "general"), format!("{at}: clone / == panicked: {msg}")),
    }
    // internal iteration (fold: what for_each / sum / count use) on a partly consumed iterator, borrowing and consuming
    for k in [0usize, 1, n / 3, n.saturating_sub(1)] {
        if k > n {
            continue;
        }
        let borrowed = catch(|| {
            let mut it = qv.iter();
            for _ in 0..k {
                it.next();
            }
            it.fold(Vec::new(), |mut v, x| {
                v.push(x);
                v
            })
        });
        let consumed = catch(|| {
            let mut it = qv.clone().into_iter();
            for _ in 0..k {
                it.next();
            }
            it.fold(Vec::new(), |mut v, x| {
                v.push(x);
                v
            })
        });
        for (label, r) in [("iter()", borrowed), ("into_iter()", consumed)] {
            match r {
                Ok(v) => {
                    if v[..] != m[k..] {
                        out.violate(
                            sig("fold", "wrong_value", "general"),
                            format!("{at}: {label} advanced by {k} and then folded yields {} symbols differing from the pushed values [{k}..] (len()={n})", v.len()),
                        );
                    }
                }
                Err(msg) => out.violate(sig("fold", panic_kind(&msg), "general"), format!("{at}: {label} advanced by {k} and folded panicked: {msg}")),
            }
        }
    }
    // skipping iteration: nth / skip / step_by, borrowing and consuming
    for k in [1usize, 2, n / 2, 255, 256, 257] {
        if k == 0 || k > n + 1 {
            continue;
        }
        let skip_b = catch(|| qv.iter().skip(k).take(n + 64).collect::<Vec<u8>>());
        let skip_c = catch(|| qv.clone().into_iter().skip(k).take(n + 64).collect::<Vec<u8>>());
        let step_b = catch(|| qv.iter().step_by(k).take(n + 64).collect::<Vec<u8>>());
        let nth_then = catch(|| {
            let mut it = qv.iter();
            let first = it.nth(k - 1);
            (first, it.take(n + 64).collect::<Vec<u8>>())
        });
        let e_skip: Vec<u8> = m.iter().skip(k).copied().collect();
        let e_step: Vec<u8> = m.iter().step_by(k).copied().collect();
        let e_nth = (m.get(k - 1).copied(), m.iter().skip(k).copied().collect::<Vec<u8>>());
        for (label, r, e) in [("iter().skip", skip_b, &e_skip), ("into_iter().skip", skip_c, &e_skip), ("iter().step_by", step_b, &e_step)] {
            match r {
                Ok(v) => {
                    if &v != e {
                        out.violate(sig("skipping_iteration", "wrong_value", "general"), format!("{at}: {label}({k}) over {n} symbols yields {} symbols that differ from the pushed values", v.len()));
                    }
                }
                Err(msg) => out.violate(sig("skipping_iteration", panic_kind(&msg), "general"), format!("{at}: {label}({k}) panicked: {msg}")),
            }
        }
        match nth_then {
            Ok(v) => {
                if v != e_nth {
                    out.violate(sig("skipping_iteration", "wrong_value", "general"), format!("{at}: nth({}) then the rest over {n} symbols gives {:?} + {} symbols, the pushed values give {:?} + {}", k - 1, v.0, v.1.len(), e_nth.0, e_nth.1.len()));
                }
            }
            Err(msg) => out.violate(sig("skipping_iteration", panic_kind(&msg), "general"), format!("{at}: nth({}) panicked: {msg}", k - 1)),
        }
    }
    match catch(|| qv.clone().into_iter().collect::<Vec<u8>>()) {
        Ok(v) => {
            if v != m {
                out.violate(
                    sig("into_iter", "wrong_value", "general"),
                    format!("{at}: into_iter() yields {} symbols, differing from the pushed values (len()={n})", v.len()),
                );
            }
        }
        Err(msg) => out.violate(sig("into_iter", panic_kind(&msg), "general"), format!("{at}: into_iter() panicked: {msg}")),
    }
}

pub fn exec(case: &QvbCase) -> RunOut {
    let mut out = RunOut::default();
    let mut digest = Digest::default();
    let low2 = |vals: &Vec<Sym>| -> Vec<u8> { vals.iter().map(|s| (s.0 & 3) as u8).collect() };
    let mut m: Vec<u8> = vec![];
    if case.init == QInit::VectorDefault {
        out.count("init.VectorDefault", 1);
        match catch(QVector::default) {
            Ok(qv) => observe(&qv, &m, "QVector::default()", &mut out, &mut digest),
            Err(msg) => out.violate(sig("default", panic_kind(&msg), "general"), format!("QVector::default() panicked: {msg}")),
        }
        out.digest = digest.0;
        return out;
    }
    if let QInit::VectorFromBursts(ty, vals, j) = &case.init {
        let j = (*j).min(vals.len());
        m = low2(&vals[..j].to_vec());
        out.count("init.VectorFromBursts", 1);
        out.count("source_fault.none_before_exhaustion", 1);
        match catch(|| with_ty!(*ty, vals, |it| FaultySource::new(it, SourceFault::NoneAfter(j)).collect::<QVector>())) {
            Ok(qv) => observe(&qv, &m, "QVector::from_iter (source ends after its first burst)", &mut out, &mut digest),
            Err(msg) => out.violate(sig("from_iter", panic_kind(&msg), "general"), format!("QVector::from_iter over a source that ends after {j} of {} values panicked: {msg}", vals.len())),
        }
        out.nontrivial = m.len() >= 2;
        out.digest = digest.0;
        return out;
    }
    if let QInit::VectorFromIter(ty, vals) = &case.init {
        m = low2(vals);
        out.count("init.VectorFromIter", 1);
        out.count(&format!("extend_ty.{ty:?}"), 1);
        let style = (vals.len() % 6) as u8;
        out.count(&format!("size_hint_style.{style}"), 1);
        match catch(|| with_ty!(*ty, vals, |it| Hinted { inner: it, style }.collect::<QVector>())) {
            Ok(qv) => observe(&qv, &m, "QVector::from_iter", &mut out, &mut digest),
            Err(msg) => out.violate(sig("from_iter", panic_kind(&msg), "general"), format!("QVector::from_iter over {} values panicked: {msg}", vals.len())),
        }
        out.nontrivial = m.len() >= 2;
        let mut fp = Digest::default();
        fp.str(&format!("{ty:?}"));
        fp.u64((m.len() % 256) as u64);
        fp.u64((m.len() / 256).min(4) as u64);
        out.fps.push(fp.0);
        out.digest = digest.0;
        return out;
    }
    let built = catch(|| match &case.init {
        QInit::New => QVectorBuilder::new(),
        QInit::WithCapacity(k) => QVectorBuilder::with_capacity(*k),
        QInit::BuilderFromIter(ty, vals) => {
            let style = (vals.len() % 6) as u8;
            with_ty!(*ty, vals, |it| Hinted { inner: it, style }.collect::<QVectorBuilder>())
        }
        QInit::BuilderDefault => QVectorBuilder::default(),
        QInit::VectorFromIter(..) | QInit::VectorDefault | QInit::VectorFromBursts(..) => unreachable!(),
    });
    if let QInit::BuilderFromIter(_, vals) = &case.init {
        m = low2(vals);
    }
    let mut b = match built {
        Ok(b) => b,
        Err(msg) => {
            out.violate(sig("construct", panic_kind(&msg), "general"), format!("constructing the builder ({:?}) panicked: {msg}", case.init));
            return out;
        }
    };
    out.count(&format!("init.{}", format!("{:?}", case.init).split('(').next().unwrap()), 1);
    let mut fp = Digest::default();
    for (k, op) in case.ops.iter().enumerate() {
        let before = m.len();
        if let QOp::ExtendFaulty(ty, vals, fault) = op {
            out.count("op.extend_faulty", 1);
            fp.u64(6);
            let all = low2(vals);
            let r = catch(|| with_ty!(*ty, vals, |it| b.extend(FaultySource::new(it, *fault))));
            match (fault, r) {
                (SourceFault::NoneAfter(j), Ok(())) => {
                    out.count("source_fault.none_before_exhaustion", 1);
                    m.extend(&all[..(*j).min(all.len())]);
                }
                (SourceFault::PanicAfter(j), Err(msg)) if msg.contains(SOURCE_FAULT_MARK) => {
                    out.count("source_fault.panic", 1);
                    // the builder survived a failed extend: it holds what it held before plus some prefix of the
                    // values the source yielded before failing (which prefix is the builder's choice)
                    let j = (*j).min(all.len());
                    match catch(|| b.clone().build()) {
                        Ok(qv) => {
                            let l = qv.len();
                            if l < before || l > before + j {
                                out.violate(
                                    sig("extend_interrupted", "wrong_value", "general"),
                                    format!("step {k}: after an extend whose source failed after {j} values the builder holds {l} symbols; it held {before} before"),
                                );
                                break;
                            }
                            m.extend(&all[..l - before]);
                            observe(&qv, &m, &format!("after the interrupted extend at step {k}"), &mut out, &mut digest);
                        }
                        Err(msg) => {
                            out.violate(sig("build", panic_kind(&msg), "general"), format!("step {k}: clone().build() after an interrupted extend panicked: {msg}"));
                            break;
                        }
                    }
                }
                (SourceFault::PanicAfter(j), Ok(())) if *j >= all.len() => {
                    // the source was never asked for value number j: nothing failed
                    m.extend(&all);
                }
                (_, Ok(())) => {
                    out.violate(sig("extend_interrupted", "fault_swallowed", "general"), format!("step {k}: extend returned normally although its source panicked"));
                    break;
                }
                (_, Err(msg)) => {
                    out.violate(sig("mutate", panic_kind(&msg), "general"), format!("step {k}: extend from a faulty source ({fault:?}) panicked: {msg}"));
                    break;
                }
            }
            continue;
        }
        let res = catch(|| {
            let mut y = std::mem::take(&mut b);
            match op {
                QOp::Push(v) => y.push(*v),
                QOp::Extend(ty, vals) => {
                    let style = (vals.len() % 6) as u8;
                    with_ty!(*ty, vals, |it| y.extend(Hinted { inner: it, style }))
                }
                QOp::Clone => {
                    let z = y.clone();
                    y = z;
                }
                QOp::Snapshot => {}
                QOp::CloneFrom(k) => {
                    let mut dst: QVectorBuilder = (0..*k).map(|i| (i % 4) as u8 ^ 1).collect();
                    dst.clone_from(&y);
                    y = dst;
                }
                QOp::ExtendFaulty(..) => unreachable!(),
            }
            y
        });
        match res {
            Ok(y) => b = y,
            Err(msg) => {
                out.violate(sig("mutate", panic_kind(&msg), "general"), format!("step {k}: {:?} panicked: {msg}", std::mem::discriminant(op)));
                break;
            }
        }
        match op {
            QOp::Push(v) => {
                m.push(v & 3);
                out.count("op.push", 1);
                fp.u64(1);
            }
            QOp::Extend(ty, vals) => {
                m.extend(low2(vals));
                out.count("op.extend", 1);
                out.count(&format!("extend_ty.{ty:?}"), 1);
                fp.u64(2);
            }
            QOp::Clone => {
                out.count("op.clone", 1);
                fp.u64(3);
            }
            QOp::CloneFrom(_) => {
                out.count("op.clone_from", 1);
                fp.u64(5);
            }
            QOp::ExtendFaulty(..) => unreachable!(),
            QOp::Snapshot => {
                out.count("op.snapshot", 1);
                fp.u64(4);
                match catch(|| b.clone().build()) {
                    Ok(qv) => observe(&qv, &m, &format!("snapshot at step {k}"), &mut out, &mut digest),
                    Err(msg) => out.violate(sig("build", panic_kind(&msg), "general"), format!("step {k}: clone().build() panicked: {msg}")),
                }
            }
        }
        if before / 256 != m.len() / 256 {
            out.count("probe.crossed_256_symbol_line", 1);
        }
    }
    match catch(|| b.build()) {
        Ok(qv) => observe(&qv, &m, "build()", &mut out, &mut digest),
        Err(msg) => out.violate(sig("build", panic_kind(&msg), "general"), format!("build() panicked: {msg}")),
    }
    out.nontrivial = m.len() >= 2;
    fp.u64((m.len() % 256) as u64);
    fp.u64((m.len() / 256).min(6) as u64);
    out.fps.push(fp.0);
    out.digest = digest.0;
    out
}
