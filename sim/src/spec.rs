//! Explicit description of "a value of some public structure", shared by the C11 / C18 / C09 workloads,
//! its generator, and the generator of query batches against it.

use qwt::verif::{self, Order};
use serde::{Deserialize, Serialize};

use crate::core::Tier;
use crate::ds::{
    build_bits, build_quads, build_tree, default_flat, default_tree, Alias, DynDs, Flat, Path, Sym, Ty, ALL_FLAT,
    ALL_PATHS, ALL_TREES, ALL_TYS, Q,
};
use crate::gen::{gen_tree_seq, Seq, TreeGenCfg};
use crate::prng::Rng;

#[derive(Clone, Debug, PartialEq, Serialize, Deserialize)]
pub enum Spec {
    Tree {
        alias: Alias,
        ty: Ty,
        path: Path,
        seq: Seq,
        /// seeds of the two enumeration orders (used by Huffman trees only)
        orders: (u64, u64),
    },
    TreeDefault { alias: Alias, ty: Ty },
    Bits { kind: Flat, bits: String },
    Quads { kind: Flat, syms: Vec<u8> },
    FlatDefault { kind: Flat },
}

impl Spec {
    pub fn kind_name(&self) -> String {
        match self {
            Spec::Tree { alias, ty, .. } | Spec::TreeDefault { alias, ty } => format!("{alias:?}<{ty:?}>"),
            Spec::Bits { kind, .. } | Spec::Quads { kind, .. } | Spec::FlatDefault { kind } => format!("{kind:?}"),
        }
    }

    /// Builds the value through the public constructors (panics propagate).
    pub fn build(&self) -> Box<dyn DynDs> {
        match self {
            Spec::Tree {
                alias,
                ty,
                path,
                seq,
                orders,
            } => {
                verif::set_orders(Order::Seeded(orders.0), Order::Seeded(orders.1));
                let t = build_tree(*alias, *ty, *path, &seq.expand());
                verif::set_orders(Order::Canonical, Order::Canonical);
                t
            }
            Spec::TreeDefault { alias, ty } => default_tree(*alias, *ty),
            Spec::Bits { kind, bits } => {
                let b: Vec<bool> = bits.chars().map(|c| c == '1').collect();
                build_bits(*kind, &b)
            }
            Spec::Quads { kind, syms } => build_quads(*kind, syms),
            Spec::FlatDefault { kind } => default_flat(*kind),
        }
    }

    pub fn n(&self) -> usize {
        match self {
            Spec::Tree { seq, .. } => seq.len(),
            Spec::Bits { bits, .. } => bits.len(),
            Spec::Quads { syms, .. } => syms.len(),
            _ => 0,
        }
    }
}

/// Sizes biased to the constants in the code.
pub fn gen_size(rng: &mut Rng, big: bool) -> usize {
    const EDGES: [usize; 21] = [
        63, 64, 65, 127, 128, 129, 255, 256, 257, 511, 512, 513, 1023, 1024, 1025, 2047, 2048, 2049, 4095, 4096, 4097,
    ];
    match rng.below(12) {
        0 => 0,
        1 | 2 => rng.urange(1, 20),
        3..=5 => rng.urange(20, 600),
        6..=8 => *rng.pick(&EDGES),
        9 | 10 => rng.urange(600, 5000),
        _ => {
            if big {
                rng.urange(5000, 40000)
            } else {
                rng.urange(600, 5000)
            }
        }
    }
}

fn gen_bits_string(rng: &mut Rng, n: usize) -> String {
    match rng.below(7) {
        6 => crate::gen::gen_word_pattern_bits(rng, n).into_iter().map(|b| if b { '1' } else { '0' }).collect(),
        // runs (sparse and dense regions, as DArray cares)
        0 => {
            let mut s = String::with_capacity(n);
            let mut bit = rng.bool();
            while s.len() < n {
                let run = rng.urange(1, 1 + n / 3).min(n - s.len());
                for _ in 0..run {
                    s.push(if bit { '1' } else { '0' });
                }
                bit = !bit;
            }
            s
        }
        _ => {
            let density = *rng.pick(&[0u64, 1, 4, 32, 60, 63, 64]);
            (0..n).map(|_| if rng.below(64) < density { '1' } else { '0' }).collect()
        }
    }
}

/// Bit strings shaped after the select inventories (DArray: blocks of 1024 occurrences, dense when they span less
/// than 65 536 bits, subblocks of 32): 1..4 blocks, each with a chosen number of occurrences and a chosen span,
/// the last one possibly partial. With `invert` the roles of ones and zeros are swapped (select0 inventories).
pub fn gen_inventory_shaped_bits(rng: &mut Rng) -> String {
    let blocks = rng.urange(1, 4);
    let invert = rng.chance(1, 3);
    let mut ones: Vec<usize> = vec![];
    let mut cursor = rng.usize_below(70);
    for b in 0..blocks {
        let last = b + 1 == blocks;
        let cnt: usize = if last {
            match rng.below(8) {
                0 => 1024,
                1 => 1,
                2 => *rng.pick(&[31usize, 32, 33, 63, 64, 65]),
                3 => 32 * rng.urange(1, 31) + 1,
                4 => 1023,
                5 => 32 * rng.urange(1, 31),
                6 => rng.urange(2, 40),
                _ => rng.urange(2, 1023),
            }
        } else {
            1024
        };
        let span = (*rng.pick(&[cnt, cnt + 1, 2 * cnt, 40_000, 65_535, 65_536, 65_537, 66_000, 100_000])).max(cnt);
        let first = cursor;
        let lastp = first + span - 1;
        if cnt == 1 {
            ones.push(first);
            cursor = first + 1 + rng.usize_below(100);
            continue;
        }
        // first and last occurrence fix the span; the others are spread evenly or packed at one end
        let packed = rng.chance(1, 3);
        for j in 0..cnt {
            let p = if j == 0 {
                first
            } else if j == cnt - 1 {
                lastp
            } else if packed {
                first + j
            } else {
                first + j * (span - 1) / (cnt - 1)
            };
            ones.push(p);
        }
        cursor = lastp + 1 + rng.usize_below(100);
    }
    ones.dedup();
    let n = cursor + rng.usize_below(3);
    let (fill, mark) = if invert { ('1', '0') } else { ('0', '1') };
    let mut v: Vec<char> = vec![fill; n];
    for p in ones {
        if p < n {
            v[p] = mark;
        }
    }
    v.into_iter().collect()
}

/// Large values next to the boundaries small ones cannot reach (65 536 elements / bits, sparse DArray blocks,
/// several select samples and hints).
/// Runs of equal bits longer than eight 4096-bit superblocks (the distance a select sample may have to be walked),
/// separated by short mixed stretches; 40 000 .. 200 000 bits.
pub fn gen_long_run_bits(rng: &mut Rng) -> String {
    let n = rng.urange(40_000, 200_000);
    let mut bits = String::with_capacity(n);
    let mut bit = rng.bool();
    let mut i = 0;
    while i < n {
        let len = (33_000 + rng.usize_below(40_000)).min(n - i);
        for _ in 0..len {
            bits.push(if bit { '1' } else { '0' });
        }
        i += len;
        // then the other bit: dense, sparse, or a short mixed stretch before the next long run
        let style = rng.below(3);
        let tail = match style {
            0 => rng.usize_below(200),
            _ => rng.urange(2_000, 20_000),
        }
        .min(n - i);
        for k in 0..tail {
            let other = match style {
                0 => rng.bool() != bit,
                1 => true,
                _ => k % 7 == 0,
            };
            bits.push(if other != bit { '1' } else { '0' });
        }
        i += tail;
        bit = !bit;
    }
    bits
}

pub fn gen_big_spec_pub(rng: &mut Rng, tier: Tier) -> Spec {
    gen_big_spec(rng, tier)
}

fn gen_big_spec(rng: &mut Rng, tier: Tier) -> Spec {
    match rng.below(4) {
        3 => Spec::Bits {
            kind: *rng.pick(&[Flat::DArray, Flat::DArray0, Flat::DArray, Flat::DArray0, Flat::RSNarrow, Flat::RSWide]),
            bits: gen_inventory_shaped_bits(rng),
        },
        0 => {
            let alias = *rng.pick(&ALL_TREES);
            let ty = *rng.pick(&ALL_TYS);
            let cfg = TreeGenCfg {
                degree: if alias.is_quad() { 4 } else { 2 },
                table_indexed: alias.is_huffman(),
                ty,
                tier,
            };
            let (seq, _) = crate::gen::gen_big_tree_seq(rng, &cfg);
            Spec::Tree {
                alias,
                ty,
                path: *rng.pick(&ALL_PATHS),
                seq,
                orders: (rng.next_u64(), rng.next_u64()),
            }
        }
        1 => {
            let kind = *rng.pick(&[Flat::BitVector, Flat::BitVectorMut, Flat::RSNarrow, Flat::RSWide, Flat::DArray, Flat::DArray0]);
            let n = *rng.pick(&[65536usize, 70000, 131072, 150000, 200000]) + rng.usize_below(2000);
            let style = rng.below(5);
            let mut bits = String::with_capacity(n);
            let mut i = 0;
            if style == 4 {
                // runs of equal bits longer than eight 4096-bit superblocks (the distance a select sample may have
                // to be walked), separated by short mixed stretches
                let mut bit = rng.bool();
                while i < n {
                    let len = (33_000 + rng.usize_below(40_000)).min(n - i);
                    for _ in 0..len {
                        bits.push(if bit { '1' } else { '0' });
                    }
                    i += len;
                    let mixed = rng.usize_below(200).min(n - i);
                    for _ in 0..mixed {
                        bits.push(if rng.bool() { '1' } else { '0' });
                    }
                    i += mixed;
                    bit = !bit;
                }
            }
            while i < n {
                // regions of ~20 000 bits: very sparse (sparse DArray blocks), dense, or all equal
                let len = (15000 + rng.usize_below(10000)).min(n - i);
                let dens: u64 = match (style, rng.below(3)) {
                    (0, _) => 1,
                    (1, _) => 600,
                    (_, 0) => 1,
                    (_, 1) => 900,
                    _ => 1024,
                };
                for _ in 0..len {
                    bits.push(if rng.below(1024) < dens { '1' } else { '0' });
                }
                i += len;
            }
            Spec::Bits { kind, bits }
        }
        _ => {
            let kind = *rng.pick(&[Flat::QVector, Flat::RSQVector256, Flat::RSQVector512]);
            let n = *rng.pick(&[65536usize, 70000, 131072, 150000]) + rng.usize_below(2000);
            let common = rng.below(4) as u8;
            let rare_every = *rng.pick(&[3u64, 50, 5000]);
            let syms = (0..n).map(|_| if rng.below(rare_every) == 0 { rng.below(4) as u8 } else { common }).collect();
            Spec::Quads { kind, syms }
        }
    }
}

pub fn gen_spec(rng: &mut Rng, tier: Tier) -> Spec {
    if rng.below(match tier {
        Tier::Quick => 250,
        Tier::Thorough => 80,
    }) == 0
    {
        return gen_big_spec(rng, tier);
    }
    match rng.below(20) {
        0 => Spec::TreeDefault {
            alias: *rng.pick(&ALL_TREES),
            ty: *rng.pick(&ALL_TYS),
        },
        1 => Spec::FlatDefault { kind: *rng.pick(&ALL_FLAT) },
        2..=11 => {
            let alias = *rng.pick(&ALL_TREES);
            let ty = *rng.pick(&ALL_TYS);
            let cfg = TreeGenCfg {
                degree: if alias.is_quad() { 4 } else { 2 },
                table_indexed: alias.is_huffman(),
                ty,
                tier,
            };
            let (seq, _) = gen_tree_seq(rng, &cfg);
            Spec::Tree {
                alias,
                ty,
                path: *rng.pick(&ALL_PATHS),
                seq,
                orders: (rng.next_u64(), rng.next_u64()),
            }
        }
        12..=16 => {
            let kind = *rng.pick(&[
                Flat::BitVector,
                Flat::BitVectorMut,
                Flat::RSNarrow,
                Flat::RSWide,
                Flat::DArray,
                Flat::DArray0,
            ]);
            let n = gen_size(rng, tier == Tier::Thorough);
            Spec::Bits {
                kind,
                bits: gen_bits_string(rng, n),
            }
        }
        _ => {
            let kind = *rng.pick(&[Flat::QVector, Flat::RSQVector256, Flat::RSQVector512]);
            let n = gen_size(rng, tier == Tier::Thorough);
            let style = rng.below(4);
            if style == 3 {
                return Spec::Quads { kind, syms: crate::gen::gen_word_pattern_quads(rng, n) };
            }
            let syms = (0..n)
                .map(|i| match style {
                    0 => rng.below(4) as u8,
                    1 => (i / (1 + n / 7)) as u8 & 3,
                    _ => {
                        if rng.below(50) == 0 {
                            rng.below(4) as u8
                        } else {
                            2
                        }
                    }
                })
                .collect();
            Spec::Quads { kind, syms }
        }
    }
}

/// A batch of queries against the value described by `spec`: in-domain and out-of-range arguments.
/// Calls that fault on the *original* value for reasons C04 owns are not generated (see the exclusion notes inline).
pub fn gen_queries(spec: &Spec, rng: &mut Rng, count: usize) -> Vec<Q> {
    let n = spec.n();
    let pos = |rng: &mut Rng| -> usize {
        match rng.below(12) {
            0 => 0,
            1 => n,
            2 => n.saturating_sub(1),
            3 => n + 1,
            4 => usize::MAX,
            5 => (rng.usize_below(n / 256 + 1) * 256).min(n),
            _ => rng.usize_below(n + 1),
        }
    };
    let mut qs = vec![Q::Len, Q::IsEmpty];
    match spec {
        Spec::Tree { alias, ty, seq, .. } => {
            let v = seq.expand();
            let mut distinct: Vec<u128> = v.clone();
            distinct.sort();
            distinct.dedup();
            let max = distinct.last().copied().unwrap_or(0);
            let ty_max: u128 = Ty::max(*ty);
            let sym = |rng: &mut Rng| -> u128 {
                // sometimes a symbol that agrees with an occurring one in its low 8/16/20/32 bits
                if !distinct.is_empty() && rng.below(6) == 0 {
                    let c = *rng.pick(&distinct);
                    let step = 1u128 << *rng.pick(&[8u32, 16, 20, 32]);
                    let v = if rng.bool() { c.wrapping_add(step) } else { c.wrapping_sub(step) };
                    if v <= ty_max {
                        return v;
                    }
                }
                let c = match rng.below(10) {
                    0 => max.saturating_add(1),
                    1 => max.saturating_add(2),
                    2 => ty_max,
                    3 if max > 0 => rng.next_u128() % (max.saturating_add(1).max(1)),
                    4 => 0,
                    _ if !distinct.is_empty() => *rng.pick(&distinct),
                    _ => rng.below(4) as u128,
                };
                c.min(ty_max)
            };
            qs.extend([Q::NLevels, Q::Sigma, Q::IterHash, Q::Space]);
            // exclusion (C01/C04): rank on an empty plain quad tree runs off the default level (segfault in release)
            let no_rank = n == 0 && alias.is_quad() && !alias.is_huffman();
            while qs.len() < count {
                let q = match rng.below(10) {
                    0..=2 => Q::Get(pos(rng)),
                    3..=5 if !no_rank => Q::Rank(Sym(sym(rng)), pos(rng)),
                    6 if !no_rank && alias.is_quad() => Q::RankPf(Sym(sym(rng)), pos(rng)),
                    _ => {
                        let c = sym(rng);
                        let cnt = v.iter().filter(|&&x| x == c).count();
                        let k = match rng.below(6) {
                            0 => cnt,
                            1 => cnt + 1,
                            2 => usize::MAX,
                            _ => rng.usize_below(cnt + 1),
                        };
                        Q::Select(Sym(c), k)
                    }
                };
                qs.push(q);
            }
        }
        Spec::TreeDefault { alias, .. } => {
            qs.extend([Q::NLevels, Q::Sigma, Q::IterHash, Q::Get(0), Q::Get(usize::MAX), Q::Select(Sym(0), 0), Q::Select(Sym(1), 3)]);
            if alias.is_huffman() || !alias.is_quad() {
                qs.extend([Q::Rank(Sym(0), 0), Q::Rank(Sym(0), 1)]);
            }
            if alias.is_huffman() && alias.is_quad() {
                qs.push(Q::RankPf(Sym(0), 0));
            }
        }
        Spec::Bits { kind, bits } => {
            let ones = bits.chars().filter(|&c| c == '1').count();
            let words = (n + 63) / 64;
            qs.extend([Q::CountOnes, Q::CountZeros, Q::IterHash, Q::Space]);
            // data-aware queries: the occurrence right after a run boundary (where a select has walked furthest from
            // its sample), the first and the last occurrence
            if n > 0 && matches!(kind, Flat::RSNarrow | Flat::RSWide | Flat::DArray | Flat::DArray0) {
                let b = bits.as_bytes();
                let mut flips: Vec<usize> = (1..n).filter(|&i| b[i] != b[i - 1]).collect();
                if flips.len() > 64 {
                    let step = flips.len() / 48 + 1;
                    flips = flips.into_iter().step_by(step).collect();
                }
                let mut r1 = 0usize; // ones before position p, maintained incrementally over the sorted flips
                let mut at = 0usize;
                for &p in &flips {
                    r1 += b[at..p].iter().filter(|&&c| c == b'1').count();
                    at = p;
                    if b[p] == b'1' {
                        qs.push(Q::Select1(r1));
                    } else if !matches!(kind, Flat::DArray) {
                        qs.push(Q::Select0(p - r1));
                    }
                }
                if ones > 0 {
                    qs.extend([Q::Select1(0), Q::Select1(ones - 1)]);
                }
                if n > ones && !matches!(kind, Flat::DArray) {
                    qs.extend([Q::Select0(0), Q::Select0(n - ones - 1)]);
                }
            }
            // exclusion (C06): RSNarrow::n_ones underflows on the empty vector; equal on both sides, but noisy
            while qs.len() < count {
                let q = match (kind, rng.below(10)) {
                    (_, 0 | 1) => Q::Get(pos(rng)),
                    (Flat::BitVector | Flat::BitVectorMut, 2 | 3) => Q::GetBits(pos(rng).min(n + 70), rng.urange(0, 65)),
                    (Flat::BitVector | Flat::BitVectorMut, 4) if words > 0 => Q::GetWord(rng.usize_below(words)),
                    (Flat::BitVector | Flat::BitVectorMut | Flat::DArray | Flat::DArray0, 5) => Q::OnesFrom(pos(rng).min(n + 600)),
                    (Flat::BitVector | Flat::BitVectorMut | Flat::DArray | Flat::DArray0, 6) => Q::ZerosFrom(pos(rng).min(n + 600)),
                    (Flat::RSNarrow | Flat::RSWide, 2 | 3) => Q::Rank1(pos(rng)),
                    (Flat::RSNarrow | Flat::RSWide, 4) => Q::Rank0(pos(rng)),
                    (Flat::RSNarrow | Flat::RSWide | Flat::DArray | Flat::DArray0, 7 | 8) => {
                        Q::Select1(match rng.below(5) {
                            0 => ones,
                            1 => usize::MAX,
                            _ => rng.usize_below(ones + 1),
                        })
                    }
                    (Flat::RSNarrow | Flat::RSWide | Flat::DArray0, 9) => Q::Select0(match rng.below(5) {
                        0 => n - ones,
                        1 => usize::MAX,
                        _ => rng.usize_below(n - ones + 1),
                    }),
                    _ => Q::Get(pos(rng)),
                };
                qs.push(q);
            }
        }
        Spec::Quads { kind, syms } => {
            qs.extend([Q::IterHash, Q::Space]);
            while qs.len() < count {
                let c = rng.below(4) as u8;
                let cnt = syms.iter().filter(|&&s| s & 3 == c).count();
                let q = match (kind, rng.below(8)) {
                    (Flat::QVector, _) => Q::Get(pos(rng)),
                    (_, 0 | 1) => Q::Get(pos(rng)),
                    (_, 2 | 3) => Q::Rank(Sym(c as u128), pos(rng)),
                    (_, 4 | 5) => Q::Select(
                        Sym(if rng.below(10) == 0 { 4 + rng.below(250) as u128 } else { c as u128 }),
                        match rng.below(5) {
                            0 => cnt,
                            1 => usize::MAX,
                            _ => rng.usize_below(cnt + 1),
                        },
                    ),
                    (_, 6) => Q::Occs(rng.below(6) as u8),
                    _ => Q::OccsSmaller(rng.below(6) as u8),
                };
                qs.push(q);
            }
        }
        Spec::FlatDefault { kind } => {
            qs.extend([Q::Get(0), Q::Get(usize::MAX), Q::IterHash, Q::CountOnes, Q::CountZeros]);
            match kind {
                Flat::RSWide => qs.extend([Q::Rank1(0), Q::Rank1(1), Q::Select1(0), Q::Select0(0)]),
                Flat::RSNarrow => qs.extend([Q::Rank1(0), Q::Rank1(1)]),
                Flat::DArray | Flat::DArray0 => qs.extend([Q::Select1(0), Q::OnesFrom(0), Q::ZerosFrom(3)]),
                Flat::BitVector | Flat::BitVectorMut => qs.extend([Q::GetBits(0, 1), Q::OnesFrom(0), Q::ZerosFrom(0)]),
                Flat::RSQVector256 | Flat::RSQVector512 => qs.extend([Q::Select(Sym(0), 0), Q::Occs(0), Q::OccsSmaller(3), Q::Occs(4)]),
                Flat::QVector => {}
            }
        }
    }
    qs
}
