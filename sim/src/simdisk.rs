//! Simulated disk: an in-memory file with a durable prefix and a volatile tail, whose `Write`/`Read` faces
//! misbehave according to an explicit fault script keyed by byte offset (so that a script is independent of
//! how the code under test happens to split its calls, and can be minimised by deleting entries).

use std::collections::BTreeMap;
use std::io::{self, ErrorKind, Read, Write};

use serde::{Deserialize, Serialize};

use crate::prng::Rng;

#[derive(Clone, Copy, Debug, PartialEq, Eq, Serialize, Deserialize)]
pub enum Fault {
    /// The call that would cross this offset is cut short there (short write / short read).
    Split,
    /// The call starting at this offset fails once with `ErrorKind::Interrupted` (EINTR), then proceeds.
    Interrupted,
    /// The call starting at this offset fails with a hard error (EIO / ENOSPC); nothing at or after it is transferred.
    Hard,
    /// (reads only) the stream ends here although more bytes exist: a file that lost its tail.
    Eof,
}

/// The faults of one transfer direction: byte offset -> fault.
pub type Script = BTreeMap<u64, Fault>;

#[derive(Clone, Debug, Default, PartialEq, Serialize, Deserialize)]
pub struct DiskPlan {
    pub write_faults: Script,
    pub read_faults: Script,
    /// wrap the writer in a `BufWriter` of this capacity (a tuning knob, randomised per run)
    pub bufwriter: Option<usize>,
    /// wrap the reader in a `BufReader` of this capacity
    pub bufreader: Option<usize>,
    /// call sync after the value was written (acknowledges the write)
    pub sync: bool,
    /// crash after writing (and syncing, if `sync`): only durable bytes plus `keep_unsynced` bytes of the
    /// volatile tail survive
    pub crash: Option<u64>,
}

#[derive(Clone, Debug, Default)]
pub struct DiskStats {
    pub short_writes: u64,
    pub eintr_writes: u64,
    pub hard_writes: u64,
    pub short_reads: u64,
    pub eintr_reads: u64,
    pub hard_reads: u64,
    pub early_eof: u64,
    pub syncs: u64,
    pub crashes: u64,
    pub torn_bytes_lost: u64,
    pub write_calls: u64,
    pub read_calls: u64,
}

impl DiskStats {
    pub fn add_to(&self, out: &mut crate::core::RunOut) {
        out.count("fault.short_write", self.short_writes);
        out.count("fault.eintr_write", self.eintr_writes);
        out.count("fault.hard_write_error", self.hard_writes);
        out.count("fault.short_read", self.short_reads);
        out.count("fault.eintr_read", self.eintr_reads);
        out.count("fault.hard_read_error", self.hard_reads);
        out.count("fault.early_eof", self.early_eof);
        out.count("fault.sync", self.syncs);
        out.count("fault.crash", self.crashes);
        out.count("fault.torn_bytes_lost", self.torn_bytes_lost);
        out.count("io.write_calls", self.write_calls);
        out.count("io.read_calls", self.read_calls);
    }
}

#[derive(Clone, Debug, Default)]
pub struct SimDisk {
    pub durable: Vec<u8>,
    pub volatile: Vec<u8>,
    pub stats: DiskStats,
}

pub struct DiskWriter<'a> {
    disk: &'a mut SimDisk,
    script: Script,
    pos: u64,
    failed: bool,
}

impl SimDisk {
    pub fn writer(&mut self, script: &Script) -> DiskWriter<'_> {
        let pos = (self.durable.len() + self.volatile.len()) as u64;
        DiskWriter {
            disk: self,
            script: script.clone(),
            pos,
            failed: false,
        }
    }

    pub fn sync(&mut self) {
        self.durable.append(&mut self.volatile);
        self.stats.syncs += 1;
    }

    /// Power loss: the durable prefix survives, of the volatile tail only the first `keep` bytes.
    pub fn crash(&mut self, keep: u64) {
        let keep = (keep as usize).min(self.volatile.len());
        self.stats.torn_bytes_lost += (self.volatile.len() - keep) as u64;
        let kept: Vec<u8> = self.volatile[..keep].to_vec();
        self.durable.extend_from_slice(&kept);
        self.volatile.clear();
        self.stats.crashes += 1;
    }

    pub fn contents(&self) -> Vec<u8> {
        let mut v = self.durable.clone();
        v.extend_from_slice(&self.volatile);
        v
    }

    pub fn reader<'a>(&'a mut self, script: &Script) -> DiskReader<'a> {
        let data = self.contents();
        DiskReader {
            data,
            stats: &mut self.stats,
            script: script.clone(),
            pos: 0,
        }
    }
}

impl Write for DiskWriter<'_> {
    fn write(&mut self, buf: &[u8]) -> io::Result<usize> {
        self.disk.stats.write_calls += 1;
        if buf.is_empty() {
            return Ok(0);
        }
        if self.failed {
            self.disk.stats.hard_writes += 1;
            return Err(io::Error::new(ErrorKind::Other, "simulated EIO (device already failed)"));
        }
        // a fault exactly at the start of this call
        match self.script.get(&self.pos).copied() {
            Some(Fault::Interrupted) => {
                self.script.remove(&self.pos);
                self.disk.stats.eintr_writes += 1;
                return Err(io::Error::new(ErrorKind::Interrupted, "simulated EINTR"));
            }
            Some(Fault::Hard) => {
                self.failed = true;
                self.disk.stats.hard_writes += 1;
                return Err(io::Error::new(ErrorKind::Other, "simulated ENOSPC"));
            }
            Some(_) => {
                self.script.remove(&self.pos);
            }
            None => {}
        }
        // the first fault strictly inside the call cuts it short
        let end = self.pos + buf.len() as u64;
        let cut = self.script.range(self.pos + 1..end).next().map(|(o, _)| *o);
        let n = match cut {
            Some(o) => {
                self.disk.stats.short_writes += 1;
                if self.script.get(&o) == Some(&Fault::Split) {
                    self.script.remove(&o);
                }
                (o - self.pos) as usize
            }
            None => buf.len(),
        };
        self.disk.volatile.extend_from_slice(&buf[..n]);
        self.pos += n as u64;
        Ok(n)
    }

    fn flush(&mut self) -> io::Result<()> {
        Ok(())
    }
}

pub struct DiskReader<'a> {
    data: Vec<u8>,
    stats: &'a mut DiskStats,
    script: Script,
    pos: u64,
}

impl Read for DiskReader<'_> {
    fn read(&mut self, buf: &mut [u8]) -> io::Result<usize> {
        self.stats.read_calls += 1;
        if buf.is_empty() {
            return Ok(0);
        }
        match self.script.get(&self.pos).copied() {
            Some(Fault::Interrupted) => {
                self.script.remove(&self.pos);
                self.stats.eintr_reads += 1;
                return Err(io::Error::new(ErrorKind::Interrupted, "simulated EINTR"));
            }
            Some(Fault::Hard) => {
                self.stats.hard_reads += 1;
                return Err(io::Error::new(ErrorKind::Other, "simulated EIO"));
            }
            Some(Fault::Eof) => {
                self.stats.early_eof += 1;
                return Ok(0);
            }
            Some(Fault::Split) => {
                self.script.remove(&self.pos);
            }
            None => {}
        }
        let remaining = self.data.len() as u64 - self.pos.min(self.data.len() as u64);
        if remaining == 0 {
            return Ok(0);
        }
        let want = (buf.len() as u64).min(remaining);
        let end = self.pos + want;
        let cut = self.script.range(self.pos + 1..end).next().map(|(o, _)| *o);
        let n = match cut {
            Some(o) => {
                self.stats.short_reads += 1;
                if self.script.get(&o) == Some(&Fault::Split) {
                    self.script.remove(&o);
                }
                (o - self.pos) as usize
            }
            None => want as usize,
        };
        let p = self.pos as usize;
        buf[..n].copy_from_slice(&self.data[p..p + n]);
        self.pos += n as u64;
        Ok(n)
    }
}

/// What happened to one persist + reload.
#[derive(Clone, Debug, PartialEq)]
pub enum IoOutcome {
    /// every fault was retryable, the write was acknowledged by a sync: the full obligations of C11 apply
    Clean,
    /// a hard error, an unacknowledged crash or a torn file occurred: informational only
    Degraded(&'static str),
}

/// Draws a fault plan for a value whose fault-free serialization has `size` bytes.
/// `retryable_only` restricts the plan to faults after which the round trip is still owed in full.
pub fn gen_plan(rng: &mut Rng, size: u64, retryable_only: bool) -> DiskPlan {
    let mut plan = DiskPlan {
        sync: true,
        ..DiskPlan::default()
    };
    // swarm: each kind is enabled per run with its own probability
    let n_faults = |rng: &mut Rng| match rng.below(10) {
        0..=3 => 0,
        4..=6 => rng.range(1, 3),
        7..=8 => rng.range(3, 12),
        _ => rng.range(12, 60),
    };
    let offset = |rng: &mut Rng, size: u64| -> u64 {
        if size == 0 {
            return 0;
        }
        match rng.below(4) {
            // inside the length prefixes / first fields
            0 => rng.below(size.min(24)),
            // around 8-byte field boundaries
            1 => (rng.below(size / 8 + 1) * 8 + rng.below(3)).min(size - 1),
            // tail
            2 => size - 1 - rng.below(size.min(16)),
            _ => rng.below(size),
        }
    };
    if rng.chance(1, 2) {
        for _ in 0..n_faults(rng) {
            plan.write_faults.insert(offset(rng, size), Fault::Split);
        }
    }
    if rng.chance(1, 2) {
        for _ in 0..n_faults(rng) {
            plan.write_faults.insert(offset(rng, size), Fault::Interrupted);
        }
    }
    if rng.chance(1, 2) {
        for _ in 0..n_faults(rng) {
            plan.read_faults.insert(offset(rng, size), Fault::Split);
        }
    }
    if rng.chance(1, 2) {
        for _ in 0..n_faults(rng) {
            plan.read_faults.insert(offset(rng, size), Fault::Interrupted);
        }
    }
    if rng.chance(1, 3) {
        plan.bufwriter = Some(*rng.pick(&[1usize, 2, 7, 8, 9, 64, 4096, 8192]));
    }
    if rng.chance(1, 3) {
        plan.bufreader = Some(*rng.pick(&[1usize, 2, 7, 8, 9, 64, 4096, 8192]));
    }
    if rng.chance(1, 3) {
        // crash after an acknowledged write: nothing may be lost
        plan.crash = Some(rng.below(size + 1));
    }
    if !retryable_only {
        match rng.below(6) {
            0 => {
                plan.write_faults.insert(offset(rng, size), Fault::Hard);
            }
            1 => {
                plan.read_faults.insert(offset(rng, size), Fault::Hard);
            }
            2 => {
                // crash before the sync: a torn file
                plan.sync = false;
                plan.crash = Some(rng.below(size + 1));
            }
            3 => {
                plan.read_faults.insert(offset(rng, size), Fault::Eof);
            }
            _ => {}
        }
    }
    plan
}

pub fn plan_is_retryable(plan: &DiskPlan) -> bool {
    plan.sync
        && !plan.write_faults.values().any(|f| matches!(f, Fault::Hard | Fault::Eof))
        && !plan.read_faults.values().any(|f| matches!(f, Fault::Hard | Fault::Eof))
}

/// Writes with `ser` through the plan's writer stack, syncs/crashes as planned, and returns the disk.
/// `Err` carries the I/O or encoding error of the write path.
pub fn persist(plan: &DiskPlan, ser: &dyn Fn(&mut dyn Write) -> Result<(), String>) -> (SimDisk, Result<(), String>) {
    let mut disk = SimDisk::default();
    let res = {
        let w = disk.writer(&plan.write_faults);
        match plan.bufwriter {
            Some(cap) => {
                let mut bw = io::BufWriter::with_capacity(cap, w);
                match ser(&mut bw) {
                    Ok(()) => bw.flush().map_err(|e| format!("flush: {e}")),
                    Err(e) => {
                        // do not let BufWriter's Drop retry the flush behind our back: take it apart
                        let _ = bw.into_parts();
                        Err(e)
                    }
                }
            }
            None => {
                let mut w = w;
                ser(&mut w)
            }
        }
    };
    if res.is_ok() && plan.sync {
        disk.sync();
    }
    if let Some(keep) = plan.crash {
        disk.crash(keep);
    }
    (disk, res)
}

/// Reads back through the plan's reader stack.
pub fn reload<T>(
    plan: &DiskPlan,
    disk: &mut SimDisk,
    de: &dyn Fn(&mut dyn Read) -> Result<T, String>,
) -> Result<T, String> {
    let r = disk.reader(&plan.read_faults);
    match plan.bufreader {
        Some(cap) => {
            let mut br = io::BufReader::with_capacity(cap, r);
            de(&mut br)
        }
        None => {
            let mut r = r;
            de(&mut r)
        }
    }
}
