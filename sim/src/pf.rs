//! C09: prefetching never changes an answer or faults. The simulator owns the one place where the code says
//! a value may be wrong: the position estimate handed to the prefetch sink (H3), perturbed per run.

use qwt::verif::{self, Order, BUGGIFY_KINDS};
use serde::{Deserialize, Serialize};

use crate::core::{catch, panic_kind, RunOut, Sig, Tier};
use crate::ds::{build_tree, Alias, DynDs, Path, Sym, Ty, A, ALL_TYS, Q, QUAD_HUFF, QUAD_PLAIN};
use crate::gen::{Arrange, Seq};
use crate::prng::{stream, Digest, Rng};

#[derive(Clone, Debug, PartialEq, Serialize, Deserialize)]
pub struct PfCase {
    pub alias: Alias,
    pub ty: Ty,
    pub seq: Seq,
    pub orders: (u64, u64),
    /// probability of perturbing a prefetch, in 1/65536
    pub prob: u32,
    /// enabled perturbation kinds (bit mask over qwt::verif::BUGGIFY_KINDS)
    pub kinds: u32,
    pub bug_seed: u64,
    pub qseed: u64,
    /// which incarnation of the tree is queried: 0 = as built, 1 = reloaded from its bincode serialization, 2 = a clone
    #[serde(default)]
    pub life: u8,
}

pub fn gen_case(run_seed: u64, tier: Tier) -> PfCase {
    let mut rng = stream(run_seed, "workload");
    let mut frng = stream(run_seed, "faults");
    let alias = if rng.bool() { *rng.pick(&QUAD_PLAIN) } else { *rng.pick(&QUAD_HUFF) };
    let ty = *rng.pick(&ALL_TYS);
    let big = match tier {
        Tier::Quick => 20000,
        Tier::Thorough => 70000,
    };
    let huge = rng.below(if tier == Tier::Thorough { 30 } else { 100 }) == 0;
    let n = match rng.below(12) {
        // beyond 65536 symbols (several dozen sampling periods)
        _ if huge => *rng.pick(&[65536usize, 70000, 131072, 140001]) + rng.usize_below(3) * 2047,
        0 => rng.urange(1, 300),
        1 => 2047,
        2 => 2048,
        3 => 2049,
        4 => *rng.pick(&[4095usize, 4096, 4097]),
        5 => 6000,
        6 => big,
        7 => *rng.pick(&[8191usize, 8192, 8193]),
        _ => rng.urange(300, big),
    };
    // alphabets giving 3 or more levels; Huffman profiles with levels of different lengths
    let d_max = (ty.max().min(4000) as usize + 1).min(n.max(1));
    let d = (*rng.pick(&[2usize, 4, 5, 16, 17, 64, 65, 200, 256, 1000])).min(d_max).max(1);
    let counts: Vec<u64> = match rng.below(4) {
        0 => vec![(n / d).max(1) as u64; d],
        1 => (0..d).map(|k| (n as u64 / (k as u64 + 1) / 5).max(1)).collect(),
        2 => {
            let mut w = (n as u64 / 2).max(1);
            (0..d)
                .map(|_| {
                    let c = w;
                    w = (w / 2).max(1);
                    c
                })
                .collect()
        }
        _ => (0..d).map(|_| 1 + rng.below(2 * (n / d).max(1) as u64)).collect(),
    };
    // symbol values: dense, or spread so that plain trees get many levels
    let spread = if alias.is_huffman() { 1 } else { *rng.pick(&[1u128, 1, 3, 17, 255]) };
    let cap = if alias.is_huffman() { ty.max().min(1 << 16) } else { ty.max() };
    // plain trees: sometimes the top of the type's range (many levels, symbols above 2^32 / 2^64)
    let top = !alias.is_huffman() && rng.chance(1, 4);
    let mut syms: Vec<u128> = (0..d as u128)
        .map(|k| if top { cap - (k * spread).min(cap) } else { (k * spread).min(cap) })
        .collect();
    syms.sort();
    syms.dedup();
    let counts = counts[..syms.len()].to_vec();
    let mut arrange = *rng.pick(&[Arrange::Shuffled, Arrange::Shuffled, Arrange::SortedRuns, Arrange::RandomRuns, Arrange::Periodic]);
    // one case in six: runs whose lengths sit on the sampling period (2048 occurrences) or one off it, so that the
    // per-level occurrence counts and the level lengths are congruent to 0, 1 or 2047 modulo the period
    let (mut syms, mut counts) = (syms, counts);
    if rng.chance(1, 6) {
        let palette: Vec<u128> = [0u128, 1, 4, 5, 16, 17, 20, 21, 48, 63, 64, 85, 128, 200, 255, 256, 1023, 4095]
            .iter()
            .copied()
            .filter(|&x| x <= cap)
            .collect();
        let k = rng.urange(2, 6).min(palette.len());
        let mut chosen: Vec<u128> = vec![];
        while chosen.len() < k {
            let c = *rng.pick(&palette);
            if !chosen.contains(&c) {
                chosen.push(c);
            }
        }
        chosen.sort();
        if rng.bool() {
            chosen.reverse();
        }
        counts = (0..k).map(|_| *rng.pick(&[1u64, 1, 2047, 2048, 2048, 2049, 4095, 4096, 4097, 6144])).collect();
        syms = chosen;
        arrange = *rng.pick(&[Arrange::SortedRuns, Arrange::SortedRuns, Arrange::SortedRuns, Arrange::RandomRuns]);
    }
    let prob = *frng.pick(&[0u32, 655, 19660, 65536, 65536]);
    let kinds = match frng.below(4) {
        0 => (1u32 << BUGGIFY_KINDS.len()) - 1,
        _ => {
            let m = frng.below(1 << BUGGIFY_KINDS.len()) as u32;
            if m == 0 {
                1 << frng.below(BUGGIFY_KINDS.len() as u64)
            } else {
                m
            }
        }
    };
    PfCase {
        alias,
        ty,
        seq: Seq::Weights {
            syms: syms.into_iter().map(Sym).collect(),
            counts,
            arrange,
            seed: rng.next_u64(),
        },
        orders: (rng.next_u64(), rng.next_u64()),
        prob,
        kinds,
        bug_seed: frng.next_u64(),
        qseed: stream(run_seed, "queries").next_u64(),
        life: match frng.below(8) {
            0 | 1 => 1,
            2 => 2,
            3 => 3,
            4 => 4,
            _ => 0,
        },
    }
}

/// More than 65 536 occurrences of one symbol (so of one 2-bit digit on every level of its path): counters and
/// samples of the prefetch support beyond 16 bits. Placed first in the run order so that every build profile sees them.
pub fn gen_huge_case(run_seed: u64, tier: Tier) -> PfCase {
    let mut c = gen_case(run_seed, tier);
    let mut rng = stream(run_seed, "huge");
    if rng.chance(3, 4) {
        c.alias = *rng.pick(&[Alias::QWT256Pfs, Alias::QWT512Pfs, Alias::HQWT256Pfs, Alias::HQWT512Pfs]);
    }
    let cap = if c.alias.is_huffman() { c.ty.max().min(1 << 16) } else { c.ty.max() };
    let k = rng.urange(1, 5);
    let mut syms: Vec<u128> = vec![];
    while syms.len() < k {
        let v = (*rng.pick(&[0u128, 1, 3, 5, 16, 21, 63, 64, 200, 255, 4095, 65535])).min(cap);
        if !syms.contains(&v) {
            syms.push(v);
        }
    }
    syms.sort();
    let mut counts: Vec<u64> = (0..k).map(|_| rng.range(1, 3000)).collect();
    let dom = rng.usize_below(k);
    counts[dom] = *rng.pick(&[65_535u64, 65_536, 65_537, 70_000, 131_072, 140_000]);
    c.seq = Seq::Weights {
        syms: syms.into_iter().map(Sym).collect(),
        counts,
        arrange: *rng.pick(&[Arrange::Shuffled, Arrange::SortedRuns, Arrange::RandomRuns, Arrange::Periodic]),
        seed: rng.next_u64(),
    };
    c
}

fn sig(alias: Alias, op: &str, class: &str, shape: &str) -> Sig {
    Sig {
        property: "C09".into(),
        family: alias.family().into(),
        op: op.into(),
        class: class.into(),
        shape: shape.into(),
    }
}

fn ask(t: &dyn DynDs, q: &Q) -> A {
    catch(|| t.answer(q)).unwrap_or_else(A::Panic)
}

pub fn exec(case: &PfCase) -> RunOut {
    let mut out = RunOut::default();
    let mut digest = Digest::default();
    verif::set_buggify(0, 0, 0);
    let v = case.seq.expand();
    let n = v.len();
    verif::set_orders(Order::Seeded(case.orders.0), Order::Seeded(case.orders.1));
    let built = catch(|| build_tree(case.alias, case.ty, Path::FromVec, &v));
    verif::set_orders(Order::Canonical, Order::Canonical);
    let t = match built {
        Ok(t) => t,
        Err(msg) => {
            out.count("construction_failed", 1);
            // construction is C01/C02's subject - unless only the type WITH prefetch support fails to build the
            // sequence its sibling builds: then there is no tree on which rank_prefetch could equal rank
            if let Some(sib) = case.alias.prefetch_sibling() {
                let with_support = format!("{:?}", case.alias).ends_with("Pfs");
                verif::set_orders(Order::Seeded(case.orders.0), Order::Seeded(case.orders.1));
                let sibling_ok = with_support && catch(|| build_tree(sib, case.ty, Path::FromVec, &v)).is_ok();
                verif::set_orders(Order::Canonical, Order::Canonical);
                if sibling_ok {
                    out.violate(
                        sig(case.alias, "build", panic_kind(&msg), "only_with_prefetch_support"),
                        format!("{:?}<{:?}> over n={n} cannot be built ({msg}) although {sib:?} builds the same sequence", case.alias, case.ty),
                    );
                }
            }
            out.digest = 5;
            return out;
        }
    };
    // the statement is about every tree of these types, however it came to be: also a reloaded one and a clone
    let t = match case.life {
        1 => {
            let r = catch(|| {
                let bytes = crate::ds::ser_vec(t.as_ref(), 0)?;
                t.de_from(0, &mut &bytes[..])
            });
            match r {
                Ok(Ok(y)) => {
                    out.count("incarnation.reloaded", 1);
                    y
                }
                _ => {
                    out.count("reload_failed", 1); // C11's subject
                    t
                }
            }
        }
        2 => match catch(|| t.clone_box()) {
            Ok(y) => {
                out.count("incarnation.clone", 1);
                y
            }
            Err(_) => t,
        },
        // clone_from into an existing, smaller tree of the same type
        3 => {
            let small: Vec<u128> = if n >= 3 { v[..n.min(37)].to_vec() } else { vec![0, 1, 2] };
            let r = catch(|| {
                verif::set_orders(Order::Seeded(case.orders.1), Order::Seeded(case.orders.0));
                let mut dst = build_tree(case.alias, case.ty, Path::FromVec, &small);
                verif::set_orders(Order::Canonical, Order::Canonical);
                let ok = dst.clone_from_dyn(t.as_ref());
                (dst, ok)
            });
            verif::set_orders(Order::Canonical, Order::Canonical);
            match r {
                Ok((y, true)) => {
                    out.count("incarnation.clone_from", 1);
                    y
                }
                _ => t,
            }
        }
        // loaded from the bytes written by the alias that differs only in prefetch support (same wire format)
        4 => {
            let r = catch(|| {
                let sib = case.alias.prefetch_sibling().ok_or_else(|| "no sibling".to_string())?;
                verif::set_orders(Order::Seeded(case.orders.0), Order::Seeded(case.orders.1));
                let other = build_tree(sib, case.ty, Path::FromVec, &v);
                verif::set_orders(Order::Canonical, Order::Canonical);
                let bytes = crate::ds::ser_vec(other.as_ref(), 0)?;
                t.de_from(0, &mut &bytes[..])
            });
            verif::set_orders(Order::Canonical, Order::Canonical);
            match r {
                Ok(Ok(y)) => {
                    out.count("incarnation.loaded_from_sibling_alias", 1);
                    y
                }
                _ => {
                    out.count("sibling_reload_failed", 1);
                    t
                }
            }
        }
        _ => t,
    };
    let levels = match t.answer(&Q::NLevels) {
        A::U(Sym(l)) => l as usize,
        _ => 0,
    };
    out.nontrivial = n >= 2 && levels >= 2;
    out.count(&format!("alias.{:?}", case.alias), 1);
    if levels >= 3 {
        out.count("shape.three_or_more_levels", 1);
    }
    if n > 3 * 2048 {
        out.count("shape.more_than_three_sampling_periods", 1);
    }
    // ---- the query list
    let mut rng = Rng::new(case.qseed);
    let mut distinct: Vec<u128> = v.clone();
    distinct.sort();
    distinct.dedup();
    let max = distinct.last().copied().unwrap_or(0);
    let ty_max = case.ty.max();
    // (under the Miri interpreter a query costs milliseconds: a fifth of the list)
    let light = cfg!(miri);
    let mut syms: Vec<u128> = (0..if light { 4 } else { 24 }).map(|_| *rng.pick(&distinct)).collect();
    syms.extend([distinct[0], max, max.saturating_add(1).min(ty_max), max.saturating_add(2).min(ty_max), ty_max]);
    if max > 0 {
        for _ in 0..4 {
            syms.push(if max == u128::MAX { rng.next_u128() } else { rng.next_u128() % (max + 1) });
        }
    }
    // symbols that alias an occurring symbol when truncated to 8/16/32/64 bits
    for b in [8u32, 16, 32, 64] {
        if case.ty.bits() > b && !light {
            let base = 1u128 << b;
            for _ in 0..2 {
                let c = *rng.pick(&distinct);
                syms.push(base.wrapping_add(c).min(ty_max));
                syms.push((base << 1).wrapping_add(c).min(ty_max));
            }
            syms.push(base.min(ty_max));
        }
    }
    syms.sort();
    syms.dedup();
    let mut positions: Vec<usize> = vec![0, 1, n / 2, n.saturating_sub(1), n, n.wrapping_add(1), usize::MAX];
    for _ in 0..if light { 2 } else { 10 } {
        positions.push(rng.usize_below(n + 1));
    }
    for b in [256usize, 512, 2048] {
        if n >= b {
            let x = b * (1 + rng.usize_below(n / b));
            positions.extend([x - 1, x.min(n), (x + 1).min(n)]);
        }
    }
    positions.sort();
    positions.dedup();
    let mut qs: Vec<(Q, Q)> = vec![]; // (rank, rank_prefetch)
    for &c in &syms {
        for &i in &positions {
            qs.push((Q::Rank(Sym(c), i), Q::RankPf(Sym(c), i)));
        }
    }
    let gets: Vec<usize> = (0..12).map(|_| rng.usize_below(n.max(1))).chain([0, n.saturating_sub(1), n]).collect();
    // a few select queries as well: "every query gives the same result with or without the prefetch feature"
    let selects: Vec<Q> = (0..10)
        .map(|_| {
            let c = *rng.pick(&syms);
            let cnt = v.iter().filter(|&&x| x == c).count();
            Q::Select(Sym(c), rng.usize_below(cnt + 2))
        })
        .collect();
    // ---- baseline: fault point disarmed
    let base: Vec<(A, A)> = qs.iter().map(|(r, p)| (ask(t.as_ref(), r), ask(t.as_ref(), p))).collect();
    let base_gets: Vec<A> = gets.iter().map(|&i| ask(t.as_ref(), &Q::Get(i))).collect();
    for (k, (a, b)) in base.iter().enumerate() {
        a.digest(&mut digest);
        b.digest(&mut digest);
        if a != b {
            let class = match b {
                A::Panic(m) => panic_kind(m).to_string(),
                _ => "differs_from_rank".to_string(),
            };
            let (Q::Rank(c, i), _) = &qs[k] else { unreachable!() };
            let shape = if *i > n { "position_past_end" } else if c.0 > max { "symbol_above_max" } else { "general" };
            out.violate(
                sig(case.alias, "rank_prefetch", &class, shape),
                format!("{} over n={n} ({levels} levels): rank_prefetch({}, {i}) = {b:?} but rank({}, {i}) = {a:?}", t.kind(), c.0, c.0),
            );
        }
    }
    for a in &base_gets {
        a.digest(&mut digest);
    }
    for q in &selects {
        ask(t.as_ref(), q).digest(&mut digest);
    }
    // ---- perturbed: every prefetch estimate may be arbitrarily wrong at the sink
    if case.prob > 0 {
        verif::set_buggify(case.prob, case.kinds, case.bug_seed);
        for (k, (r, p)) in qs.iter().enumerate() {
            let b = ask(t.as_ref(), p);
            if b != base[k].1 {
                let class = match &b {
                    A::Panic(m) => panic_kind(m).to_string(),
                    _ => "answer_changed_by_wrong_estimate".to_string(),
                };
                out.violate(
                    sig(case.alias, "rank_prefetch", &class, "perturbed_estimate"),
                    format!("{} over n={n}: {p:?} = {b:?} with perturbed prefetch estimates, {:?} without", t.kind(), base[k].1),
                );
            }
            // rank itself does not prefetch in plain trees but get/select paths do
            let _ = r;
        }
        for (k, &i) in gets.iter().enumerate() {
            let a = ask(t.as_ref(), &Q::Get(i));
            if a != base_gets[k] {
                let class = match &a {
                    A::Panic(m) => panic_kind(m).to_string(),
                    _ => "answer_changed_by_wrong_estimate".to_string(),
                };
                out.violate(
                    sig(case.alias, "get", &class, "perturbed_estimate"),
                    format!("{} over n={n}: get({i}) = {a:?} with perturbed prefetch estimates, {:?} without", t.kind(), base_gets[k]),
                );
            }
        }
        let b = verif::take_buggify();
        verif::set_buggify(0, 0, 0);
        out.count("prefetch_calls_while_armed", b.calls);
        for (k, name) in BUGGIFY_KINDS.iter().enumerate() {
            out.count(&format!("fault.prefetch_offset_{name}"), b.fired[k]);
        }
    }
    let probes = verif::take_probes();
    out.count("probe.pfs_estimate_loop_iteration", probes[6]);
    if probes[6] as usize >= 2 * qs.len() {
        out.count("probe.estimate_loop_ran_two_or_more_levels", 1);
    }
    let mut fp = Digest::default();
    fp.str(&format!("{:?}", case.alias));
    fp.u64(levels as u64);
    fp.u64((n / 2048) as u64);
    fp.u64(case.prob as u64);
    fp.u64(case.kinds as u64);
    out.fps.push(fp.0);
    out.digest = digest.0;
    out
}
