//! C12: iterators under arbitrary call histories over {next, next_back, len}, against a `VecDeque`.

use std::collections::VecDeque;

use qwt::verif::{self, Order};
use serde::{Deserialize, Serialize};

use crate::core::{catch, panic_kind, RunOut, Sig, Tier};
use crate::ds::{build_bits, build_quads, build_tree, default_flat, default_tree, Alias, DynDs, DynIter, Flat, IterKind, Path, Ty, ALL_FLAT, ALL_TREES, ALL_TYS};
use crate::gen::{gen_tree_seq, Seq, TreeGenCfg};
use crate::prng::{stream, Digest, Rng};

#[derive(Clone, Debug, PartialEq, Serialize, Deserialize)]
pub enum Container {
    Tree {
        alias: Alias,
        ty: Ty,
        seq: Seq,
        /// seeds of the two enumeration orders (Huffman trees only)
        orders: (u64, u64),
    },
    Bits { kind: Flat, bits: String },
    Quads { kind: Flat, syms: Vec<u8> },
    /// a mutable bit vector grown by a history (`with_zeros(zeros)` or `new()` + `extend_with_zeros(zeros)`, then
    /// `tail` pushed bit by bit or appended), iterated as `BitVectorMut` or frozen into a `BitVector`
    BitsGrown {
        frozen: bool,
        zeros: usize,
        via_extend: bool,
        tail: String,
        /// `set_bits(index, len, bits)` applied after the growth (inside the vector, often straddling a word or line)
        #[serde(default)]
        patches: Vec<(usize, usize, u64)>,
    },
    /// `Default::default()` of a tree type (an empty sequence that never went through a constructor)
    TreeDefault { alias: Alias, ty: Ty },
    /// `Default::default()` of a bit / quad structure
    FlatDefault { kind: Flat },
}

#[derive(Clone, Copy, Debug, PartialEq, Eq, Serialize, Deserialize)]
pub enum Call {
    Next,
    NextBack,
    Len,
    /// `size_hint()`: its bounds must enclose the number of elements not yet yielded (0 once exhausted)
    SizeHint,
    /// consume the rest through `Iterator::fold` (ends the history)
    FoldRest,
    /// `nth(k)`: skips k elements, yields the next
    Nth(usize),
    /// `nth_back(k)`
    NthBack(usize),
    /// `count()` of the rest (ends the history)
    CountRest,
    /// `last()` of the rest (ends the history)
    LastRest,
    /// `rfold` over the rest, i.e. what `rev()` adaptors drive (ends the history; double-ended iterators only)
    RFoldRest,
    /// `min()` / `max()` of the rest (ends the history)
    MinRest,
    MaxRest,
}

#[derive(Clone, Debug, PartialEq, Serialize, Deserialize)]
pub struct IterCase {
    pub container: Container,
    pub iter: IterKind,
    pub calls: Vec<Call>,
}

fn gen_n(rng: &mut Rng) -> usize {
    match rng.below(10) {
        0 => 0,
        1 | 2 => rng.urange(1, 5),
        3..=5 => rng.urange(5, 70),
        6 | 7 => *rng.pick(&[63usize, 64, 65, 127, 128, 129, 255, 256, 257, 511, 512, 513]),
        _ => rng.urange(70, 600),
    }
}

pub fn gen_case(run_seed: u64, tier: Tier) -> IterCase {
    let mut rng = stream(run_seed, "workload");
    let (container, iter, n) = match rng.below(41) {
        40 => {
            // Default values: empty, but not built by any constructor
            if rng.bool() {
                (
                    Container::TreeDefault { alias: *rng.pick(&ALL_TREES), ty: *rng.pick(&ALL_TYS) },
                    *rng.pick(&[IterKind::Iter, IterKind::RefIntoIter, IterKind::IntoIter]),
                    0,
                )
            } else {
                let p = rng.usize_below(3) * rng.usize_below(600);
                (
                    Container::FlatDefault { kind: *rng.pick(&ALL_FLAT) },
                    *rng.pick(&[
                        IterKind::Iter,
                        IterKind::RefIntoIter,
                        IterKind::IntoIter,
                        IterKind::Ones,
                        IterKind::Zeros,
                        IterKind::OnesFrom(p),
                        IterKind::ZerosFrom(p),
                    ]),
                    0,
                )
            }
        }
        0..=19 => {
            let alias = *rng.pick(&ALL_TREES);
            let ty = *rng.pick(&ALL_TYS);
            let cfg = TreeGenCfg {
                degree: if alias.is_quad() { 4 } else { 2 },
                table_indexed: alias.is_huffman(),
                ty,
                tier: Tier::Quick,
            };
            let large = rng.chance(1, 10);
            let n = if large { usize::MAX } else { gen_n(&mut rng) };
            // reuse the tree generator, then cut to the wanted length; one case in ten is a few thousand symbols
            // long with one dominant symbol (levels that are mostly ones or mostly zeros across several superblocks)
            let seq = if large {
                let k = rng.urange(1, 5);
                let mut syms: Vec<crate::ds::Sym> = vec![];
                while syms.len() < k {
                    let c = crate::ds::Sym(*rng.pick(&[0u128, 1, 2, 3, 4, 7, 15, 16, 63, 64, 127, 128, 129, 200, 254, 255]));
                    if !syms.contains(&c) {
                        syms.push(c);
                    }
                }
                let mut counts: Vec<u64> = (0..k).map(|_| rng.range(1, 400)).collect();
                counts[0] = rng.range(2100, 7000);
                Seq::Weights {
                    syms,
                    counts,
                    arrange: *rng.pick(&[crate::gen::Arrange::Shuffled, crate::gen::Arrange::SortedRuns, crate::gen::Arrange::RandomRuns, crate::gen::Arrange::Periodic]),
                    seed: rng.next_u64(),
                }
            } else {
                gen_tree_seq(&mut rng, &cfg).0
            };
            let mut v = seq.expand();
            v.truncate(n);
            let n = v.len();
            let iter = *rng.pick(&[IterKind::Iter, IterKind::RefIntoIter, IterKind::IntoIter]);
            (
                Container::Tree {
                    alias,
                    ty,
                    seq: Seq::Explicit(v.into_iter().map(crate::ds::Sym).collect()),
                    orders: (rng.next_u64(), rng.next_u64()),
                },
                iter,
                n,
            )
        }
        20..=31 if rng.chance(1, 6) => {
            let zeros = match rng.below(3) {
                0 => 512 * rng.urange(0, 3),
                1 => 64 * rng.urange(0, 20),
                _ => rng.urange(0, 1300),
            };
            let t = rng.urange(0, 90);
            let tail: String = (0..t).map(|_| if rng.bool() { '1' } else { '0' }).collect();
            let frozen = rng.bool();
            let n = zeros + t;
            let p = rng.usize_below(n + 2);
            let mut kinds = vec![IterKind::Iter, IterKind::IntoIter, IterKind::Ones, IterKind::Zeros, IterKind::OnesFrom(p), IterKind::ZerosFrom(p)];
            if frozen {
                kinds.push(IterKind::RefIntoIter);
            }
            let mut patches = vec![];
            if n >= 70 {
                for _ in 0..rng.below(4) {
                    let len = rng.urange(1, 64);
                    let index = match rng.below(3) {
                        0 => (512 * rng.urange(1, n / 512 + 1)).saturating_sub(rng.urange(1, len)), // straddles a line
                        1 => (64 * rng.urange(1, n / 64 + 1)).saturating_sub(rng.urange(1, len)),   // straddles a word
                        _ => rng.usize_below(n),
                    };
                    if index + len <= n {
                        let bits = if len == 64 { rng.next_u64() } else { rng.next_u64() & ((1u64 << len) - 1) };
                        patches.push((index, len, bits));
                    }
                }
            }
            (Container::BitsGrown { frozen, zeros, via_extend: rng.bool(), tail, patches }, *rng.pick(&kinds), n)
        }
        20..=31 => {
            let kind = *rng.pick(&[Flat::BitVector, Flat::BitVectorMut, Flat::DArray, Flat::DArray0]);
            let sparse = rng.chance(1, 4);
            let (n, bits) = if sparse {
                // several 512-bit lines, a handful of bits that differ from the background: the position
                // iterators must cross whole empty words and lines
                let n = rng.urange(513, 3300);
                let bg = rng.bool();
                let mut b = vec![bg; n];
                for _ in 0..rng.below(7) {
                    let i = rng.usize_below(n);
                    b[i] = !bg;
                }
                (n, b.iter().map(|&x| if x { '1' } else { '0' }).collect::<String>())
            } else if rng.chance(1, 5) {
                let n = gen_n(&mut rng) * rng.urange(1, 4);
                (n, crate::gen::gen_word_pattern_bits(&mut rng, n).into_iter().map(|b| if b { '1' } else { '0' }).collect::<String>())
            } else {
                let n = gen_n(&mut rng);
                let density = *rng.pick(&[0u64, 1, 8, 32, 56, 63, 64]);
                (n, (0..n).map(|_| if rng.below(64) < density { '1' } else { '0' }).collect::<String>())
            };
            let p = match rng.below(6) {
                0 => n,
                1 => n + rng.urange(1, 70),
                // at / around a word or line boundary
                2 => (rng.usize_below(n / 64 + 1) * 64 + rng.usize_below(3)).saturating_sub(1),
                3 => (rng.usize_below(n / 512 + 1) * 512 + rng.usize_below(3)).saturating_sub(1),
                _ => rng.usize_below(n + 1),
            };
            let kinds: Vec<IterKind> = match kind {
                Flat::BitVector => vec![
                    IterKind::Iter,
                    IterKind::RefIntoIter,
                    IterKind::IntoIter,
                    IterKind::Ones,
                    IterKind::Zeros,
                    IterKind::OnesFrom(p),
                    IterKind::ZerosFrom(p),
                ],
                Flat::BitVectorMut => vec![
                    IterKind::Iter,
                    IterKind::IntoIter,
                    IterKind::Ones,
                    IterKind::Zeros,
                    IterKind::OnesFrom(p),
                    IterKind::ZerosFrom(p),
                ],
                _ => vec![
                    IterKind::Iter,
                    IterKind::Ones,
                    IterKind::Zeros,
                    IterKind::OnesFrom(p),
                    IterKind::ZerosFrom(p),
                ],
            };
            (Container::Bits { kind, bits }, *rng.pick(&kinds), n)
        }
        _ => {
            let kind = *rng.pick(&[Flat::QVector, Flat::RSQVector256, Flat::RSQVector512]);
            let n = gen_n(&mut rng);
            let syms: Vec<u8> = match rng.below(8) {
                0 | 1 => crate::gen::gen_word_pattern_quads(&mut rng, n),
                // any byte value: only the two low bits are stored
                2 => (0..n).map(|_| rng.below(256) as u8).collect(),
                3 => (0..n).map(|_| if rng.chance(1, 6) { rng.below(256) as u8 } else { rng.below(2) as u8 }).collect(),
                _ => (0..n).map(|_| rng.below(4) as u8).collect(),
            };
            (
                Container::Quads { kind, syms },
                *rng.pick(&[IterKind::Iter, IterKind::RefIntoIter, IterKind::IntoIter]),
                n,
            )
        }
    };
    let _ = ALL_FLAT;
    let _ = tier;
    // histories: biased to keep going after the first None
    let n_calls = rng.urange(1, 2 * n.min(700) + 12);
    let style = rng.below(5);
    let calls: Vec<Call> = (0..n_calls)
        .map(|k| match style {
            0 => Call::Next,
            1 => {
                if rng.chance(1, 6) {
                    Call::Len
                } else if rng.bool() {
                    Call::Next
                } else {
                    Call::NextBack
                }
            }
            2 => {
                // len between every pair of calls
                if k % 2 == 1 {
                    Call::Len
                } else if rng.bool() {
                    Call::Next
                } else {
                    Call::NextBack
                }
            }
            3 => Call::NextBack,
            _ => *rng.pick(&[Call::Next, Call::Next, Call::Next, Call::NextBack, Call::Len]),
        })
        .collect();
    let mut calls = calls;
    if rng.chance(1, 3) {
        let k = rng.usize_below(calls.len() + 1);
        calls.insert(k, Call::SizeHint);
    }
    if rng.chance(1, 3) {
        // a few skipping calls (what an O(1) "jump" optimisation of nth would touch)
        for _ in 0..rng.urange(1, 3) {
            let k = rng.usize_below(calls.len() + 1);
            let skip = match rng.below(4) {
                0 => 0,
                1 => rng.usize_below(n + 2),
                _ => rng.usize_below(n / 4 + 2),
            };
            calls.insert(k, if rng.bool() { Call::Nth(skip) } else { Call::NthBack(skip) });
        }
    }
    if rng.chance(1, 3) {
        // cut the history somewhere and consume the rest by internal iteration / count / last
        let k = rng.usize_below(calls.len() + 1);
        calls.truncate(k);
        calls.push(*rng.pick(&[
            Call::FoldRest,
            Call::FoldRest,
            Call::FoldRest,
            Call::CountRest,
            Call::CountRest,
            Call::LastRest,
            Call::LastRest,
            Call::RFoldRest,
            Call::RFoldRest,
            Call::MinRest,
            Call::MaxRest,
        ]));
    }
    IterCase { container, iter, calls }
}

fn iterator_type(c: &Container, k: IterKind) -> &'static str {
    match (c, k) {
        (Container::Tree { .. } | Container::TreeDefault { .. }, _) => "WTIterator",
        (Container::Quads { .. }, _) => "QVectorIterator",
        (Container::FlatDefault { kind: Flat::QVector | Flat::RSQVector256 | Flat::RSQVector512 }, _) => "QVectorIterator",
        (Container::BitsGrown { .. }, IterKind::IntoIter) => "BitVectorIntoIter",
        (Container::BitsGrown { .. }, IterKind::Iter | IterKind::RefIntoIter) => "BitVectorIter",
        (Container::BitsGrown { .. }, _) => "BitVectorBitPositionsIter",
        (Container::FlatDefault { .. }, IterKind::IntoIter) => "BitVectorIntoIter",
        (Container::FlatDefault { .. }, IterKind::Iter | IterKind::RefIntoIter) => "BitVectorIter",
        (Container::FlatDefault { .. }, _) => "BitVectorBitPositionsIter",
        (Container::Bits { .. }, IterKind::IntoIter) => "BitVectorIntoIter",
        (Container::Bits { .. }, IterKind::Iter | IterKind::RefIntoIter) => "BitVectorIter",
        (Container::Bits { .. }, _) => "BitVectorBitPositionsIter",
    }
}

pub fn exec(case: &IterCase) -> RunOut {
    let mut out = RunOut::default();
    let mut digest = Digest::default();
    let fam = iterator_type(&case.container, case.iter);
    let sig = |op: &str, class: &str, shape: &str| Sig {
        property: "C12".into(),
        family: fam.into(),
        op: op.into(),
        class: class.into(),
        shape: shape.into(),
    };
    // build the container and the model of what the iterator must yield
    let built: Result<(Box<dyn DynDs>, Vec<u128>), String> = catch(|| match &case.container {
        Container::Tree { alias, ty, seq, orders } => {
            verif::set_orders(Order::Seeded(orders.0), Order::Seeded(orders.1));
            let v = seq.expand();
            let t = build_tree(*alias, *ty, Path::FromVec, &v);
            verif::set_orders(Order::Canonical, Order::Canonical);
            // "iter() and into_iter() yield S[0], S[1], ... in order": the elements are those of the input sequence
            (t, v)
        }
        Container::Bits { kind, bits } => {
            let b: Vec<bool> = bits.chars().map(|c| c == '1').collect();
            let t = build_bits(*kind, &b);
            let all: Vec<u128> = match case.iter {
                IterKind::Iter | IterKind::RefIntoIter | IterKind::IntoIter => b.iter().map(|&x| x as u128).collect(),
                IterKind::Ones => (0..b.len()).filter(|&i| b[i]).map(|i| i as u128).collect(),
                IterKind::Zeros => (0..b.len()).filter(|&i| !b[i]).map(|i| i as u128).collect(),
                IterKind::OnesFrom(p) => (0..b.len()).filter(|&i| b[i] && i >= p).map(|i| i as u128).collect(),
                IterKind::ZerosFrom(p) => (0..b.len()).filter(|&i| !b[i] && i >= p).map(|i| i as u128).collect(),
            };
            (t, all)
        }
        Container::Quads { kind, syms } => {
            let t = build_quads(*kind, syms);
            (t, syms.iter().map(|&s| (s & 3) as u128).collect())
        }
        Container::BitsGrown { frozen, zeros, via_extend, tail, patches } => {
            let mut b: Vec<bool> = vec![false; *zeros];
            b.extend(tail.chars().map(|c| c == '1'));
            for &(index, len, bits) in patches {
                if index + len <= b.len() && len <= 64 && len >= 1 {
                    for k in 0..len {
                        b[index + k] = bits >> k & 1 == 1;
                    }
                }
            }
            let t = crate::ds::build_bits_grown(*frozen, *zeros, *via_extend, tail, patches);
            let all: Vec<u128> = match case.iter {
                IterKind::Iter | IterKind::RefIntoIter | IterKind::IntoIter => b.iter().map(|&x| x as u128).collect(),
                IterKind::Ones => (0..b.len()).filter(|&i| b[i]).map(|i| i as u128).collect(),
                IterKind::Zeros => (0..b.len()).filter(|&i| !b[i]).map(|i| i as u128).collect(),
                IterKind::OnesFrom(p) => (0..b.len()).filter(|&i| b[i] && i >= p).map(|i| i as u128).collect(),
                IterKind::ZerosFrom(p) => (0..b.len()).filter(|&i| !b[i] && i >= p).map(|i| i as u128).collect(),
            };
            (t, all)
        }
        Container::TreeDefault { alias, ty } => (default_tree(*alias, *ty), vec![]),
        Container::FlatDefault { kind } => (default_flat(*kind), vec![]),
    });
    let (ds, elems) = match built {
        Ok(x) => x,
        Err(_msg) => {
            // construction failures are the subject of C02/C03/C08, not of C12
            out.count("container_construction_failed", 1);
            out.digest = 7;
            return out;
        }
    };
    // the container, however it came to be: as built, reloaded, a clone, or an existing value overwritten by clone_from
    let life = (case.calls.len() as u64 + elems.len() as u64) % 5;
    let (ds, how) = crate::ds::incarnate(ds, life, || match &case.container {
        Container::Tree { alias, ty, .. } | Container::TreeDefault { alias, ty } => catch(|| build_tree(*alias, *ty, Path::FromVec, &[3, 1, 2, 1, 0])).ok(),
        Container::Bits { kind, .. } | Container::FlatDefault { kind } if !matches!(kind, Flat::QVector | Flat::RSQVector256 | Flat::RSQVector512) => {
            catch(|| build_bits(*kind, &[true, false, true, true])).ok()
        }
        Container::BitsGrown { frozen, .. } => catch(|| build_bits(if *frozen { Flat::BitVector } else { Flat::BitVectorMut }, &[true, false, true, true])).ok(),
        Container::Quads { kind, .. } | Container::FlatDefault { kind } | Container::Bits { kind, .. } => catch(|| build_quads(*kind, &[1, 2, 3, 0, 1])).ok(),
    });
    out.count(&format!("incarnation.{how}"), 1);
    out.nontrivial = elems.len() >= 2 && case.calls.len() >= 3;
    out.count(&format!("iterator.{fam}"), 1);
    let mut model: VecDeque<u128> = elems.iter().copied().collect();
    let n0 = model.len();
    // obtain the iterator
    let kind = case.iter;
    let mut boxed_keep: Option<Box<dyn DynDs>> = None;
    let obtained: Result<Option<Box<dyn DynIter + '_>>, String> = if kind == IterKind::IntoIter {
        catch(|| ds.into_iter_box())
    } else {
        boxed_keep = Some(ds);
        let keep = boxed_keep.as_ref().unwrap();
        catch(|| keep.iter_box(kind))
    };
    let it = match obtained {
        Ok(x) => x,
        Err(msg) => {
            out.violate(
                sig("obtain_iterator", panic_kind(&msg), if n0 == 0 { "empty_container" } else { "general" }),
                format!("obtaining the {kind:?} iterator ({fam}) of a container of {n0} elements panicked: {msg}"),
            );
            out.digest = 11;
            return out;
        }
    };
    let Some(it) = it else {
        out.count("iterator_kind_not_offered_by_type", 1);
        out.digest = 9;
        return out;
    };
    let mut it_slot: Option<Box<dyn DynIter + '_>> = Some(it);
    let mut after_exhaustion_calls = 0u64;
    let mut exhausted = false;
    let mut front_met_back = false;
    let mut used_front = false;
    let mut used_back = false;
    for (k, call) in case.calls.iter().enumerate() {
        let shape = if exhausted { "after_exhaustion" } else { "general" };
        if exhausted {
            after_exhaustion_calls += 1;
        }
        let Some(it) = it_slot.as_mut() else { break };
        match call {
            Call::SizeHint => match catch(|| it.size_hint()) {
                Ok((lo, hi)) => {
                    let rem = model.len();
                    if lo > rem || hi.map_or(false, |h| h < rem) {
                        out.violate(
                            sig("size_hint", "wrong_value", shape),
                            format!("call #{k} size_hint() on {fam} over {n0} elements returned ({lo}, {hi:?}), {rem} elements are not yet yielded"),
                        );
                        break;
                    }
                }
                Err(msg) => {
                    out.violate(sig("size_hint", panic_kind(&msg), shape), format!("call #{k} size_hint() on {fam} over {n0} elements panicked: {msg}"));
                    break;
                }
            },
            Call::Nth(skip) => {
                let skip = *skip;
                for _ in 0..skip.min(model.len()) {
                    model.pop_front();
                }
                let e = model.pop_front();
                used_front = true;
                match catch(|| it.nth(skip)) {
                    Ok(g) => {
                        digest.opt_u128(g);
                        if g != e {
                            let class = if g.is_none() { "none_for_some" } else if e.is_none() { "some_for_none" } else { "wrong_value" };
                            out.violate(sig("nth", class, shape), format!("call #{k} nth({skip}) on {fam} over {n0} elements returned {g:?}, the sequence gives {e:?}"));
                            break;
                        }
                    }
                    Err(msg) => {
                        out.violate(sig("nth", panic_kind(&msg), shape), format!("call #{k} nth({skip}) on {fam} over {n0} elements panicked: {msg}"));
                        break;
                    }
                }
                if e.is_none() {
                    exhausted = true;
                }
            }
            Call::NthBack(skip) => {
                let skip = *skip;
                match catch(|| it.nth_back(skip)) {
                    Ok(None) => {}
                    Ok(Some(g)) => {
                        for _ in 0..skip.min(model.len()) {
                            model.pop_back();
                        }
                        let e = model.pop_back();
                        used_back = true;
                        digest.opt_u128(g);
                        if g != e {
                            let class = if g.is_none() { "none_for_some" } else if e.is_none() { "some_for_none" } else { "wrong_value" };
                            out.violate(sig("nth_back", class, shape), format!("call #{k} nth_back({skip}) on {fam} over {n0} elements returned {g:?}, the sequence gives {e:?}"));
                            break;
                        }
                        if e.is_none() {
                            exhausted = true;
                        }
                    }
                    Err(msg) => {
                        out.violate(sig("nth_back", panic_kind(&msg), shape), format!("call #{k} nth_back({skip}) on {fam} over {n0} elements panicked: {msg}"));
                        break;
                    }
                }
            }
            Call::CountRest => {
                let boxed = it_slot.take().unwrap();
                let e = model.len();
                match catch(|| boxed.count_rest()) {
                    Ok(g) => {
                        digest.u64(g as u64);
                        if g != e {
                            out.violate(sig("count", "wrong_value", shape), format!("call #{k} count() on the rest of {fam} over {n0} elements returned {g}, {e} elements were left"));
                        }
                    }
                    Err(msg) => out.violate(sig("count", panic_kind(&msg), shape), format!("call #{k} count() on {fam} panicked: {msg}")),
                }
                break;
            }
            Call::LastRest => {
                let boxed = it_slot.take().unwrap();
                let e = model.back().copied();
                match catch(|| boxed.last_rest()) {
                    Ok(g) => {
                        digest.opt_u128(g);
                        if g != e {
                            out.violate(sig("last", "wrong_value", shape), format!("call #{k} last() on the rest of {fam} over {n0} elements returned {g:?}, the sequence gives {e:?}"));
                        }
                    }
                    Err(msg) => out.violate(sig("last", panic_kind(&msg), shape), format!("call #{k} last() on {fam} panicked: {msg}")),
                }
                break;
            }
            Call::FoldRest => {
                let boxed = it_slot.take().unwrap();
                let rest: Vec<u128> = model.drain(..).collect();
                match catch(|| boxed.fold_rest()) {
                    Ok(g) => {
                        for x in &g {
                            digest.u128(*x);
                        }
                        if g != rest {
                            let first = g.iter().zip(&rest).position(|(a, b)| a != b).unwrap_or(g.len().min(rest.len()));
                            out.violate(
                                sig("fold", "wrong_value", shape),
                                format!("call #{k} fold() over the rest of {fam} ({n0} elements, {} already yielded) produced {} elements, first difference at offset {first}; {} elements were left", n0 - rest.len(), g.len(), rest.len()),
                            );
                        }
                    }
                    Err(msg) => out.violate(sig("fold", panic_kind(&msg), shape), format!("call #{k} fold() over the rest of {fam} panicked: {msg}")),
                }
                out.count("probe.rest_consumed_by_fold", 1);
                break;
            }
            Call::RFoldRest => {
                let boxed = it_slot.take().unwrap();
                let rest: Vec<u128> = model.drain(..).rev().collect();
                match catch(|| boxed.rfold_rest()) {
                    Ok(None) => out.count("rfold_not_offered", 1),
                    Ok(Some(g)) => {
                        for x in &g {
                            digest.u128(*x);
                        }
                        if g != rest {
                            let first = g.iter().zip(&rest).position(|(a, b)| a != b).unwrap_or(g.len().min(rest.len()));
                            out.violate(
                                sig("rfold", "wrong_value", shape),
                                format!("call #{k} rfold() over the rest of {fam} ({n0} elements, {} already yielded) produced {} elements, first difference at offset {first} from the back; {} elements were left", n0 - rest.len(), g.len(), rest.len()),
                            );
                        }
                    }
                    Err(msg) => out.violate(sig("rfold", panic_kind(&msg), shape), format!("call #{k} rfold() over the rest of {fam} panicked: {msg}")),
                }
                out.count("probe.rest_consumed_by_rfold", 1);
                break;
            }
            Call::MinRest | Call::MaxRest => {
                let boxed = it_slot.take().unwrap();
                let is_min = *call == Call::MinRest;
                let e = if is_min { model.iter().copied().min() } else { model.iter().copied().max() };
                let left = model.len();
                model.clear();
                let name = if is_min { "min" } else { "max" };
                match catch(|| if is_min { boxed.min_rest() } else { boxed.max_rest() }) {
                    Ok(g) => {
                        digest.opt_u128(g);
                        if g != e {
                            out.violate(
                                sig(name, "wrong_value", shape),
                                format!("call #{k} {name}() over the rest of {fam} ({n0} elements, {left} left) returned {g:?}, the sequence gives {e:?}"),
                            );
                        }
                    }
                    Err(msg) => out.violate(sig(name, panic_kind(&msg), shape), format!("call #{k} {name}() over the rest of {fam} panicked: {msg}")),
                }
                break;
            }
            Call::Next => {
                let e = model.pop_front();
                used_front = true;
                match catch(|| it.next()) {
                    Ok(g) => {
                        digest.opt_u128(g);
                        if g != e {
                            let class = if g.is_none() { "none_for_some" } else if e.is_none() { "some_for_none" } else { "wrong_value" };
                            out.violate(
                                sig("next", class, shape),
                                format!("call #{k} next() on {fam} over {n0} elements returned {g:?}, the sequence gives {e:?}"),
                            );
                            break;
                        }
                    }
                    Err(msg) => {
                        out.violate(sig("next", panic_kind(&msg), shape), format!("call #{k} next() on {fam} over {n0} elements panicked: {msg}"));
                        break;
                    }
                }
                if e.is_none() {
                    exhausted = true;
                }
            }
            Call::NextBack => {
                match catch(|| it.next_back()) {
                    Ok(None) => {} // this iterator type is not double ended
                    Ok(Some(g)) => {
                        let e = model.pop_back();
                        used_back = true;
                        digest.opt_u128(g);
                        if g != e {
                            let class = if g.is_none() { "none_for_some" } else if e.is_none() { "some_for_none" } else { "wrong_value" };
                            out.violate(
                                sig("next_back", class, shape),
                                format!("call #{k} next_back() on {fam} over {n0} elements returned {g:?}, the sequence gives {e:?}"),
                            );
                            break;
                        }
                        if e.is_none() {
                            exhausted = true;
                        }
                    }
                    Err(msg) => {
                        out.violate(
                            sig("next_back", panic_kind(&msg), shape),
                            format!("call #{k} next_back() on {fam} over {n0} elements panicked: {msg}"),
                        );
                        break;
                    }
                }
            }
            Call::Len => match catch(|| it.len()) {
                Ok(None) => {} // no ExactSizeIterator for this type
                Ok(Some(g)) => {
                    digest.u64(g as u64);
                    if g != model.len() {
                        out.violate(
                            sig("len", "wrong_value", shape),
                            format!("call #{k} len() on {fam} over {n0} elements returned {g}, {} elements are not yet yielded", model.len()),
                        );
                        break;
                    }
                }
                Err(msg) => {
                    out.violate(sig("len", panic_kind(&msg), shape), format!("call #{k} len() on {fam} over {n0} elements panicked: {msg}"));
                    break;
                }
            },
        }
        if model.is_empty() && used_front && used_back && n0 > 0 {
            front_met_back = true;
        }
    }
    drop(it_slot);
    if front_met_back {
        out.count("probe.front_met_back", 1);
    }
    if after_exhaustion_calls >= 3 {
        out.count("probe.three_or_more_calls_after_exhaustion", 1);
    }
    let _ = verif::take_probes();
    let mut fp = Digest::default();
    fp.str(fam);
    fp.str(&format!("{:?}", std::mem::discriminant(&case.iter)));
    fp.u64(match n0 {
        0 => 0,
        1..=8 => 1,
        9..=64 => 2,
        65..=256 => 3,
        _ => 4,
    });
    for c in case.calls.iter().take(24) {
        fp.str(&format!("{:?}", std::mem::discriminant(c)));
    }
    fp.u64(case.calls.len().min(40) as u64 / 4);
    out.fps.push(fp.0);
    out.digest = digest.0;
    out
}
