//! Small scenarios meant to run under Miri (`cargo +nightly miri run --features miri-engine --bin qmiri -- <mode> <seed>`):
//!   c18 <seed>  real std threads over one shared structure: Miri's seeded scheduler pre-empts anywhere and its
//!               data-race detector reports any unsynchronised conflicting access, even if no answer is wrong
//!   c02 <seed> / c03 <seed>
//!               tie orders produced by the REAL hash maps (mode Real: no hook intervention); under Miri the
//!               `RandomState` keys come from the interpreter's seeded RNG, so the order is a function of -Zmiri-seed
//!   c09 <seed>  the prefetch fault point under the interpreter: a sink that dereferences, or uses non-wrapping
//!               pointer arithmetic, is undefined behaviour that Miri reports
//! Exit code 0 = scenario held; 1 = an oracle failed (message on stdout); Miri itself reports UB / data races.

#[path = "../core.rs"]
mod core;
#[path = "../ds.rs"]
mod ds;
#[path = "../gen.rs"]
mod gen;
#[path = "../pf.rs"]
mod pf;
#[path = "../prng.rs"]
mod prng;
#[path = "../spec.rs"]
mod spec;
#[path = "../trees.rs"]
mod trees;

use crate::core::Tier;
use crate::ds::{Sym, A, Q};
use crate::gen::Seq;
use crate::prng::{run_seed, stream, Rng};
use crate::spec::{gen_queries, gen_spec, Spec};
use crate::trees::OrderSpec;

/// Indices of the first real queries of a batch (one of each kind): issued by every thread first, so that
/// whatever a structure does lazily on first use happens on several threads at once.
fn first_use(batch: &[(Q, A)]) -> Vec<usize> {
    let mut seen: Vec<std::mem::Discriminant<Q>> = vec![];
    let mut out = vec![];
    for (i, (q, _)) in batch.iter().enumerate() {
        if matches!(q, Q::Len | Q::IsEmpty | Q::NLevels | Q::Sigma | Q::Space) {
            continue;
        }
        let d = std::mem::discriminant(q);
        if !seen.contains(&d) {
            seen.push(d);
            out.push(i);
        }
        if out.len() >= 4 {
            break;
        }
    }
    out
}

fn shrink_seq(seq: &Seq, max_n: usize, max_d: usize) -> Seq {
    let mut v = seq.expand();
    // keep at most max_d distinct symbols and max_n elements
    let mut distinct: Vec<u128> = v.clone();
    distinct.sort();
    distinct.dedup();
    distinct.truncate(max_d);
    v.retain(|x| distinct.contains(x));
    v.truncate(max_n);
    Seq::Explicit(v.into_iter().map(Sym).collect())
}

fn small_spec(rng: &mut Rng) -> Spec {
    loop {
        let s = gen_spec(rng, Tier::Quick);
        let s = match s {
            Spec::Tree { alias, ty, path, seq, orders } => Spec::Tree {
                alias,
                ty,
                path,
                seq: shrink_seq(&seq, 160, 12),
                orders,
            },
            Spec::Bits { kind, bits } => Spec::Bits {
                kind,
                bits: bits.chars().take(700).collect(),
            },
            Spec::Quads { kind, syms } => Spec::Quads {
                kind,
                syms: syms.into_iter().take(400).collect(),
            },
            other => other,
        };
        if s.n() > 0 {
            return s;
        }
    }
}

fn c18(seed: u64) -> i32 {
    let mut rng = stream(run_seed(seed, "C18-miri", 0), "workload");
    let spec = small_spec(&mut rng);
    let x = match crate::core::catch(|| spec.build()) {
        Ok(x) => x,
        Err(_) => {
            println!("construction failed (not C18's subject): {}", spec.kind_name());
            return 0;
        }
    };
    let qs = gen_queries(&spec, &mut rng, 14);
    // single-thread answers; queries that panic are other properties' subject
    let batch: Vec<(Q, A)> = qs
        .into_iter()
        .map(|q| {
            let a = crate::core::catch(|| x.answer(&q)).unwrap_or_else(A::Panic);
            (q, a)
        })
        .filter(|(_, a)| !matches!(a, A::Panic(_)))
        .collect();
    println!("c18 scenario seed={seed} structure={} n={} queries={}", x.kind(), spec.n(), batch.len());
    // the threads share a value nobody has queried yet, so that first-use effects happen under the scheduler
    let x = match crate::core::catch(|| spec.build()) {
        Ok(y) => y,
        Err(_) => return 0,
    };
    let ok = std::sync::atomic::AtomicBool::new(true);
    let n = batch.len();
    std::thread::scope(|s| {
        for j in 0..3usize {
            let x = &x;
            let batch = &batch;
            let ok = &ok;
            s.spawn(move || {
                // every thread starts with the same few queries (simultaneous first use), then its own slice
                let start = j * n / 3;
                for k in first_use(batch).into_iter().chain((0..(2 * n / 3).max(1)).map(|k| (start + k) % n)) {
                    let (q, e) = &batch[k % n];
                    let got = x.answer(q);
                    if &got != e {
                        println!("C18-MISMATCH thread {j} query {q:?} answered {got:?}, a single thread gets {e:?}");
                        ok.store(false, std::sync::atomic::Ordering::SeqCst);
                    }
                }
            });
        }
    });
    if ok.load(std::sync::atomic::Ordering::SeqCst) {
        0
    } else {
        1
    }
}

/// One tiny value of every structure family, each queried by three real threads: so that a data race in any of
/// them is in reach of every interpreter seed.
fn c18all(seed: u64) -> i32 {
    use crate::ds::{Alias, Flat, Path, Ty};
    let mut rng = stream(run_seed(seed, "C18-miri-all", 0), "workload");
    // ~40 distinct symbols with skewed counts: code tables of several lengths, long enough to be "in progress"
    let n = 110 + rng.usize_below(30);
    let syms: Vec<u128> = (0..n)
        .map(|i| {
            let r = rng.usize_below(100);
            (if r < 40 { r % 4 } else if r < 70 { 4 + r % 10 } else { 14 + (i * 7 + r) % 28 }) as u128
        })
        .collect();
    let bits: String = (0..(120 + rng.usize_below(40))).map(|_| if rng.below(3) == 0 { '1' } else { '0' }).collect();
    let quads: Vec<u8> = (0..(120 + rng.usize_below(40))).map(|_| rng.below(4) as u8).collect();
    let tys = [Ty::U8, Ty::U16, Ty::U32, Ty::U64, Ty::Usize, Ty::U128];
    let mut specs: Vec<Spec> = vec![];
    for (k, alias) in crate::ds::ALL_TREES.iter().enumerate() {
        specs.push(Spec::Tree {
            alias: *alias,
            ty: tys[(k + seed as usize) % tys.len()],
            path: Path::FromVec,
            seq: Seq::Explicit(syms.iter().map(|&s| Sym(s)).collect()),
            orders: (rng.next_u64(), rng.next_u64()),
        });
    }
    for kind in [Flat::BitVector, Flat::RSNarrow, Flat::RSWide, Flat::DArray, Flat::DArray0] {
        specs.push(Spec::Bits { kind, bits: bits.clone() });
    }
    for kind in [Flat::QVector, Flat::RSQVector256, Flat::RSQVector512] {
        specs.push(Spec::Quads { kind, syms: quads.clone() });
    }
    let _ = Alias::WT;
    // one third of the families per scenario (by scenario seed), so that an execution stays affordable
    let part = (seed % 3) as usize;
    let specs: Vec<Spec> = specs.into_iter().enumerate().filter(|(i, _)| i % 3 == part).map(|(_, s)| s).collect();
    let mut bad = 0;
    for spec in &specs {
        let x = match crate::core::catch(|| spec.build()) {
            Ok(x) => x,
            Err(_) => continue,
        };
        let qs = gen_queries(spec, &mut rng, 13);
        let batch: Vec<(Q, A)> = qs
            .into_iter()
            .filter(|q| !matches!(q, Q::IterHash | Q::Space | Q::Len | Q::IsEmpty | Q::NLevels | Q::Sigma))
            .map(|q| {
                let a = crate::core::catch(|| x.answer(&q)).unwrap_or_else(A::Panic);
                (q, a)
            })
            .filter(|(_, a)| !matches!(a, A::Panic(_)))
            .collect();
        // fresh value for the threads (nobody has queried it yet)
        let x = match crate::core::catch(|| spec.build()) {
            Ok(y) => y,
            Err(_) => continue,
        };
        if batch.is_empty() {
            continue;
        }
        let ok = std::sync::atomic::AtomicBool::new(true);
        let n = batch.len();
        std::thread::scope(|s| {
            for j in 0..3usize {
                let x = &x;
                let batch = &batch;
                let ok = &ok;
                s.spawn(move || {
                    // the same first queries on every thread (simultaneous first use), then a rotated pass
                    for k in first_use(batch).into_iter().chain((0..n).map(|k| (j * 3 + k) % n)) {
                        let (q, e) = &batch[k];
                        let got = x.answer(q);
                        if &got != e {
                            println!("C18-MISMATCH {} thread {j} query {q:?} answered {got:?}, a single thread gets {e:?}", x.kind());
                            ok.store(false, std::sync::atomic::Ordering::SeqCst);
                        }
                    }
                });
            }
        });
        if !ok.load(std::sync::atomic::Ordering::SeqCst) {
            bad += 1;
        }
    }
    println!("c18all scenario seed={seed} structures={} mismatching={bad}", specs.len());
    (bad > 0) as i32
}

/// Rank/select structures large enough for their sampled search paths (several superblocks per select sample,
/// more than one sample), hammered with select/rank queries by three real threads.
fn c18big(seed: u64) -> i32 {
    use crate::ds::Flat;
    let mut rng = stream(run_seed(seed, "C18-miri-big", 0), "workload");
    let n = 13000 + rng.usize_below(3000);
    let dens = 20 + rng.below(30);
    let bits: String = (0..n).map(|_| if rng.below(64) < dens { '1' } else { '0' }).collect();
    let ones = bits.chars().filter(|&c| c == '1').count();
    let kinds = [Flat::RSWide, Flat::RSNarrow, Flat::DArray0];
    let kind = kinds[(seed % 3) as usize];
    let spec = Spec::Bits { kind, bits };
    let x = match crate::core::catch(|| spec.build()) {
        Ok(x) => x,
        Err(_) => return 0,
    };
    let mut qs: Vec<Q> = vec![];
    for _ in 0..36 {
        qs.push(match rng.below(4) {
            0 => Q::Select0(rng.usize_below(n - ones)),
            1 if kind != Flat::DArray0 => Q::Rank1(rng.usize_below(n + 1)),
            _ => Q::Select1(rng.usize_below(ones)),
        });
    }
    let batch: Vec<(Q, A)> = qs
        .into_iter()
        .map(|q| {
            let a = crate::core::catch(|| x.answer(&q)).unwrap_or_else(A::Panic);
            (q, a)
        })
        .filter(|(_, a)| !matches!(a, A::Panic(_)))
        .collect();
    println!("c18big scenario seed={seed} structure={} n={n} ones={ones} queries={}", x.kind(), batch.len());
    let ok = std::sync::atomic::AtomicBool::new(true);
    let nq = batch.len();
    std::thread::scope(|s| {
        for j in 0..3usize {
            let x = &x;
            let batch = &batch;
            let ok = &ok;
            s.spawn(move || {
                for k in 0..nq {
                    let (q, e) = &batch[(j * 11 + k) % nq];
                    let got = crate::core::catch(|| x.answer(q)).unwrap_or_else(A::Panic);
                    if &got != e {
                        println!("C18-MISMATCH {} thread {j} query {q:?} answered {got:?}, a single thread gets {e:?}", x.kind());
                        ok.store(false, std::sync::atomic::Ordering::SeqCst);
                    }
                }
            });
        }
    });
    if ok.load(std::sync::atomic::Ordering::SeqCst) {
        0
    } else {
        1
    }
}

/// A quad vector with rank/select support spanning several superblocks (2048 / 4096 symbols each), three
/// real threads issuing mostly `select` of the same symbols at far-apart ranks on the shared value: what a
/// cache, hint or cursor kept inside the select path would have to survive.
fn c18quad(seed: u64) -> i32 {
    use crate::ds::{Flat, Sym};
    let mut rng = stream(run_seed(seed, "C18-miri-quad", 0), "workload");
    let kind = [Flat::RSQVector256, Flat::RSQVector512][(seed % 2) as usize];
    let sb = if kind == Flat::RSQVector256 { 2048 } else { 4096 };
    let n = sb * 3 + sb / 4 + rng.usize_below(sb / 2);
    // every symbol occurs in every superblock, with different frequencies
    let syms: Vec<u8> = (0..n)
        .map(|_| match rng.below(32) {
            0..=15 => 0u8,
            16..=25 => 1,
            26..=30 => 2,
            _ => 3,
        })
        .collect();
    let mut occ = [0usize; 4];
    for &c in &syms {
        occ[c as usize] += 1;
    }
    let spec = Spec::Quads { kind, syms };
    let x = match crate::core::catch(|| spec.build()) {
        Ok(x) => x,
        Err(_) => return 0,
    };
    let mut qs: Vec<Q> = vec![];
    for k in 0..42u64 {
        let c = (k % 4) as usize;
        qs.push(match rng.below(8) {
            0 => Q::Rank(Sym(c as u128), rng.usize_below(n + 1)),
            1 => Q::Get(rng.usize_below(n)),
            // ranks spread over all superblocks (ranks are 1-based for quad structures; out-of-range ones answer None)
            _ => Q::Select(Sym(c as u128), rng.usize_below(occ[c] + 2)),
        });
    }
    let batch: Vec<(Q, A)> = qs
        .into_iter()
        .map(|q| {
            let a = crate::core::catch(|| x.answer(&q)).unwrap_or_else(A::Panic);
            (q, a)
        })
        .filter(|(_, a)| !matches!(a, A::Panic(_)))
        .collect();
    println!("c18quad scenario seed={seed} structure={} n={n} occs={occ:?} queries={}", x.kind(), batch.len());
    let ok = std::sync::atomic::AtomicBool::new(true);
    let nq = batch.len();
    std::thread::scope(|s| {
        for j in 0..3usize {
            let x = &x;
            let batch = &batch;
            let ok = &ok;
            s.spawn(move || {
                for k in 0..nq {
                    let (q, e) = &batch[(j * 13 + k) % nq];
                    let got = crate::core::catch(|| x.answer(q)).unwrap_or_else(A::Panic);
                    if &got != e {
                        println!("C18-MISMATCH {} thread {j} query {q:?} answered {got:?}, a single thread gets {e:?}", x.kind());
                        ok.store(false, std::sync::atomic::Ordering::SeqCst);
                    }
                }
            });
        }
    });
    if ok.load(std::sync::atomic::Ordering::SeqCst) {
        0
    } else {
        1
    }
}

/// "Any number of threads": more than 64 threads use one shared value during the process's life, and two of them,
/// 64 apart in order of first use, query it at the same time (what a per-thread slot table of fixed size, a thread
/// counter taken modulo something, or a thread-id keyed cache would have to survive).
fn c18many(seed: u64) -> i32 {
    use crate::ds::{Path, Ty};
    use std::sync::atomic::{AtomicBool, AtomicUsize, Ordering};
    let mut rng = stream(run_seed(seed, "C18-miri-many", 0), "workload");
    let n = 60 + rng.usize_below(20);
    let syms: Vec<u128> = (0..n).map(|i| ((i * 7 + rng.usize_below(9)) % 23) as u128).collect();
    let aliases = [crate::ds::Alias::HQWT256, crate::ds::Alias::QWT256Pfs, crate::ds::Alias::HWT, crate::ds::Alias::WT, crate::ds::Alias::HQWT512Pfs];
    let alias = aliases[(seed % aliases.len() as u64) as usize];
    let spec = Spec::Tree {
        alias,
        ty: [Ty::U8, Ty::U32, Ty::U64][(seed % 3) as usize],
        path: Path::FromVec,
        seq: Seq::Explicit(syms.iter().map(|&s| Sym(s)).collect()),
        orders: (rng.next_u64(), rng.next_u64()),
    };
    let x = match crate::core::catch(|| spec.build()) {
        Ok(x) => x,
        Err(_) => return 0,
    };
    let mut qs = gen_queries(&spec, &mut rng, 8);
    // valid queries of every kind (a cache or memo is only reached by arguments that pass validation)
    for _ in 0..8 {
        qs.push(Q::Get(rng.usize_below(n)));
    }
    for _ in 0..4 {
        let c = syms[rng.usize_below(n)];
        qs.push(Q::Rank(Sym(c), rng.usize_below(n + 1)));
        qs.push(Q::Select(Sym(c), 0));
    }
    let batch: Vec<(Q, A)> = qs
        .into_iter()
        .filter(|q| !matches!(q, Q::IterHash | Q::Space | Q::Len | Q::IsEmpty | Q::NLevels | Q::Sigma))
        .map(|q| {
            let a = crate::core::catch(|| x.answer(&q)).unwrap_or_else(A::Panic);
            (q, a)
        })
        .filter(|(_, a)| !matches!(a, A::Panic(_)))
        .collect();
    if batch.is_empty() {
        return 0;
    }
    let x = match crate::core::catch(|| spec.build()) {
        Ok(y) => y,
        Err(_) => return 0,
    };
    let go = AtomicBool::new(false);
    let ready = AtomicUsize::new(0);
    let ok = AtomicBool::new(true);
    let nq = batch.len();
    let worker = |j: usize| {
        // first use (this is where a thread would be given its number / slot), then wait for the other worker
        for (q0, e0) in batch.iter() {
            if &x.answer(q0) != e0 {
                ok.store(false, Ordering::SeqCst);
            }
        }
        ready.fetch_add(1, Ordering::SeqCst);
        while !go.load(Ordering::Acquire) {
            std::thread::yield_now();
        }
        for round in 0..3 {
            for k in 0..nq {
                let (q, e) = &batch[(j * 5 + k + round) % nq];
                let got = x.answer(q);
                if &got != e {
                    println!("C18-MISMATCH {} thread {j} query {q:?} answered {got:?}, a single thread gets {e:?}", x.kind());
                    ok.store(false, Ordering::SeqCst);
                }
            }
        }
    };
    std::thread::scope(|s| {
        s.spawn(|| worker(0));
        while ready.load(Ordering::SeqCst) < 1 {
            std::thread::yield_now();
        }
        // 63 short-lived threads use the value once each, one after the other
        for d in 0..63usize {
            let (batch, x, ok) = (&batch, &x, &ok);
            let h = s.spawn(move || {
                // every kind of query once (whichever of them hands a thread its number / slot)
                for k in 0..nq {
                    let (q, e) = &batch[(d + k) % nq];
                    if &x.answer(q) != e {
                        ok.store(false, Ordering::SeqCst);
                    }
                }
            });
            let _ = h.join();
        }
        s.spawn(|| worker(1));
        while ready.load(Ordering::SeqCst) < 2 {
            std::thread::yield_now();
        }
        go.store(true, Ordering::Release);
    });
    println!("c18many scenario seed={seed} structure={} threads=65 queries={nq}", x.kind());
    (!ok.load(Ordering::SeqCst)) as i32
}

fn trees_real(prop: &str, seed: u64) -> i32 {
    let rs = run_seed(seed, &format!("{prop}-miri"), 0);
    let mut case = trees::gen_case(prop, rs, Tier::Quick);
    case.seq = shrink_seq(&case.seq, 220, 20);
    // no hook intervention: the orders are whatever the real, randomly keyed hash maps produce
    case.orders = vec![(OrderSpec::Real, OrderSpec::Real), (OrderSpec::Real, OrderSpec::Real)];
    let out = trees::exec(&case);
    println!(
        "{prop} real-hasher scenario seed={seed} alias={:?} ty={:?} n={} violations={}",
        case.alias,
        case.ty,
        case.seq.len(),
        out.viols.len()
    );
    for v in &out.viols {
        println!("VIOL {} :: {}", v.sig.key(), v.detail);
    }
    if out.viols.is_empty() {
        0
    } else {
        1
    }
}

fn c09(seed: u64) -> i32 {
    let rs = run_seed(seed, "C09-miri", 0);
    let mut case = pf::gen_case(rs, Tier::Quick);
    case.seq = shrink_seq(&case.seq, 400, 30);
    // few levels under the interpreter (trees of 32..64 levels are the main batch's business: natively a query
    // costs microseconds, interpreted such a scenario took more than 20 minutes)
    if let Seq::Explicit(v) = &case.seq {
        case.seq = Seq::Explicit(v.iter().map(|s| Sym(s.0 % 251)).collect());
    }
    // plain quad trees only: an interpreted Huffman-shaped scenario of this size took 57 minutes (measured), the
    // plain ones take seconds; the Huffman-shaped trees are covered natively by the main batch
    case.alias = match case.alias {
        crate::ds::Alias::HQWT256 => crate::ds::Alias::QWT256,
        crate::ds::Alias::HQWT512 => crate::ds::Alias::QWT512,
        crate::ds::Alias::HQWT256Pfs => crate::ds::Alias::QWT256Pfs,
        crate::ds::Alias::HQWT512Pfs => crate::ds::Alias::QWT512Pfs,
        a => a,
    };
    if case.prob == 0 {
        case.prob = 65536;
    }
    let out = pf::exec(&case);
    println!(
        "c09 scenario seed={seed} alias={:?} n={} prob={} kinds={:#x} violations={}",
        case.alias,
        case.seq.len(),
        case.prob,
        case.kinds,
        out.viols.len()
    );
    for v in &out.viols {
        println!("VIOL {} :: {}", v.sig.key(), v.detail);
    }
    if out.viols.is_empty() {
        0
    } else {
        1
    }
}

fn main() {
    let args: Vec<String> = std::env::args().skip(1).collect();
    if args.len() != 2 {
        eprintln!("usage: qmiri c18|c02|c03|c09 <seed>");
        std::process::exit(2);
    }
    crate::core::install_quiet_panic_hook();
    let seed: u64 = args[1].parse().expect("seed");
    let code = match args[0].as_str() {
        "warm" => 0,
        "c18" => c18(seed),
        "c18all" => c18all(seed),
        "c18big" => c18big(seed),
        "c18quad" => c18quad(seed),
        "c18many" => c18many(seed),
        "c02" => trees_real("C02", seed),
        "c03" => trees_real("C03", seed),
        "c09" => c09(seed),
        _ => 2,
    };
    std::process::exit(code);
}
