mod cases;
mod core;
mod ds;
mod gen;
mod minimise;
mod prng;
mod sup;
mod trees;

use crate::core::Tier;

pub fn cases_stub(prop: &str) -> String {
    match prop {
        "C02" | "C03" => "iteration order of the two randomly seeded hash maps of the Huffman builders (H1 rehash, H2 permute_ties): chosen by the simulator; nothing else".into(),
        _ => String::new(),
    }
}

pub fn cases_assumptions(prop: &str) -> Vec<String> {
    match prop {
        "C02" | "C03" => vec![
            "the order in which the builder enumerates the frequency map and the code-length map is the only nondeterminism of construction (the determinism self-check would expose another source)".into(),
            "every permutation of the enumeration order is considered reachable, as the property text quantifies over every order; a real hasher reaches all of them only for small alphabets".into(),
            "sampling, not enumeration, except for alphabets of at most 6 symbols where all orders of the code-length map (and for at most 4 symbols of both maps) are enumerated".into(),
        ],
        _ => vec![],
    }
}

fn usage() -> i32 {
    eprintln!("usage: qsim <C02|C03|...> quick|thorough | replay <file> | worker ... | one ... | minimise <in> <out> | exec-case <file>");
    2
}

fn main() {
    let args: Vec<String> = std::env::args().skip(1).collect();
    if args.is_empty() {
        std::process::exit(usage());
    }
    let code = match args[0].as_str() {
        "worker" => sup::worker_main(&args[1..]),
        "one" => sup::one_main(&args[1..]),
        "replay" if args.len() == 2 => sup::replay_main(&args[1]),
        "exec-case" if args.len() == 2 => sup::exec_case_main(&args[1]),
        "minimise" if args.len() == 3 => minimise::minimise_main(&args[1], &args[2]),
        p if cases::CLAIMED.contains(&p) && args.len() >= 2 => match Tier::parse(&args[1]) {
            Some(tier) => sup::check_main(p, tier, &|_, _| sup::Extra { coverage: Default::default(), found: vec![], harness_errors: vec![], evaluations: 0 }),
            None => usage(),
        },
        _ => usage(),
    };
    std::process::exit(code);
}
