mod bvm;
mod cases;
mod core;
mod ds;
mod gen;
mod iters;
mod minimise;
mod miri;
mod pf;
mod prng;
mod qvb;
mod ser;
mod simdisk;
mod spec;
mod sup;
mod thr;
mod trees;

use crate::core::Tier;

pub fn cases_stub(prop: &str) -> String {
    match prop {
        "C02" | "C03" => "iteration order of the two randomly seeded hash maps of the Huffman builders (H1 rehash, H2 permute_ties): chosen by the simulator; the size hints of the source iterator of collect(); nothing else".into(),
        "C08" => "the disk under persist+restart (SimDisk: short / interrupted reads and writes, buffering, sync, crash); the caller-supplied source iterators of extend/collect (size hints, early end, panic after j values)".into(),
        "C09" => "the prefetch position estimates at the sink (H3 buggify: 8 perturbation kinds); the crate's prefetch feature (second build)".into(),
        "C11" => "the byte transport (SimDisk: short / interrupted / failed reads and writes, BufWriter/BufReader knobs, sync, crash with or without a torn tail, early EOF)".into(),
        "C12" => "nothing is stubbed; the simulator chooses the call history and how the container came to be (built, reloaded, clone, clone_from)".into(),
        "C13" => "the caller-supplied source iterators of extend/collect (size hints, early end, panic after j values)".into(),
        "C18" => "the thread scheduler: shuttle (seeded random / PCT) switching at the H4 points and between queries; the Miri interpreter's seeded scheduler (pre-emption at any basic block) for the qmiri scenarios".into(),
        _ => String::new(),
    }
}

pub fn cases_assumptions(prop: &str) -> Vec<String> {
    match prop {
        "C02" | "C03" => vec![
            "the order in which the builder enumerates the frequency map and the code-length map is the only nondeterminism of construction (the determinism self-check would expose another source)".into(),
            "every permutation of the enumeration order is considered reachable, as the property text quantifies over every order; a real hasher reaches all of them only for small alphabets".into(),
            "sampling, not enumeration, except for alphabets of at most 6 symbols where all orders of the code-length map (and for at most 4 symbols of both maps) are enumerated".into(),
        ],
        "C08" => vec![
            "arguments stay inside the documented preconditions; after a failed extend the vector may hold any prefix of the values its source yielded before failing".into(),
            "a source iterator that reports its end is finished: values it would yield if polled again are not part of the sequence".into(),
        ],
        "C09" => vec!["prefetch_read_NTA is the only sink of the position estimates (checked by reading the code)".into()],
        "C11" => vec!["obligations (success, ==, identical bytes, identical answers) are owed when only retryable faults fired and the write was acknowledged; hard errors and crashes before sync are informational".into()],
        "C12" => vec!["the elements an iterator must yield are those of the input sequence".into()],
        "C13" => vec!["after a failed extend the builder may hold any prefix of the values its source yielded before failing; a source that reports its end is finished".into()],
        "C18" => vec![
            "shuttle switches threads only at the H4 points and between queries; races inside code without such a point are left to the Miri scenarios".into(),
            "a stall of the shuttle phase (a blocking primitive shuttle does not model) is reported as a note, not as a verdict".into(),
        ],
        _ => vec![],
    }
}

/// Engines beyond the main batch: C09 compares per-run answer digests with the build that lacks the crate's
/// `prefetch` feature.
fn extra_engines(prop: &str, tier: Tier, seed: u64, planned: u64, first: &std::collections::BTreeMap<u64, u64>) -> sup::Extra {
    let mut ex = sup::Extra {
        coverage: Default::default(),
        found: vec![],
        harness_errors: vec![],
        evaluations: 0,
    };
    if prop == "C09" {
        match std::env::var("QSIM_BIN_NOPF") {
            Ok(bin) => {
                let total = first.keys().next_back().map_or(0, |m| m + 1).min(planned);
                let br = sup::run_batch(std::path::Path::new(&bin), prop, tier, seed, total, sup::n_workers_pub());
                let mut differing = vec![];
                for (r, d) in &br.digests {
                    if first.get(r) != Some(d) {
                        differing.push(*r);
                    }
                }
                ex.evaluations += br.evaluations;
                for (r, case, v) in br.viols {
                    ex.found.push(("nopf".to_string(), r, case, v));
                }
                ex.harness_errors.extend(br.harness_errors);
                ex.coverage.insert(
                    "cross_build".into(),
                    serde_json::json!({
                        "what": "per-run digest of every rank / rank_prefetch / get answer, feature `prefetch` on vs off",
                        "runs_compared": br.digests.len(),
                        "runs_differing": differing.len(),
                        "batch_digest_feature_off": format!("{:016x}", br.batch_digest),
                    }),
                );
                for r in differing.into_iter().take(3) {
                    let case = cases::gen(prop, seed, tier, r);
                    ex.found.push((
                        "external".to_string(),
                        r,
                        case,
                        crate::core::Violation {
                            sig: crate::core::Sig {
                                property: "C09".into(),
                                family: "quad_trees".into(),
                                op: "all_queries".into(),
                                class: "answers_differ_between_feature_on_and_off".into(),
                                shape: "general".into(),
                            },
                            detail: format!("run {r}: the answer digest of the build with the `prefetch` feature differs from the build without it"),
                        },
                    ));
                }
            }
            Err(_) => ex.harness_errors.push("QSIM_BIN_NOPF is not set (run through /verif/check)".into()),
        }
    }
    // ---- Miri engine (interpreter with seeded scheduler / RNG, data-race and UB detection)
    let plan: Vec<(&str, u64, u32, &[&str], bool)> = match (prop, tier) {
        // (mode, scenarios, interpreter seeds per scenario, pre-emption rates, also without the prefetch feature)
        // c18all: one tiny value of every structure family per execution, so a data race anywhere is in reach
        // c18big: rank/select structures large enough for their sampled search paths (3 kinds, by scenario index)
        ("C18", Tier::Quick) => vec![("c18all", 3, 5, &["0.3"], false), ("c18big", 3, 4, &["0.3"], false), ("c18quad", 2, 4, &["0.3"], false), ("c18many", 2, 3, &["0.3"], false)],
        ("C18", Tier::Thorough) => vec![
            ("c18", 4, 16, &["0.01", "0.1", "0.5"], false),
            ("c18all", 3, 16, &["0.05", "0.5"], false),
            ("c18big", 3, 12, &["0.1", "0.5"], false),
            ("c18quad", 4, 12, &["0.1", "0.5"], false),
            ("c18many", 5, 8, &["0.1", "0.5"], false),
        ],
        ("C02", Tier::Thorough) => vec![("c02", 4, 32, &["0.01"], false)],
        ("C03", Tier::Thorough) => vec![("c03", 4, 32, &["0.01"], false)],
        // (C09 has a qmiri mode, `c09`, but no interpreter plan: some scenarios of 400 symbols take seconds and
        // others more than an hour under Miri, for reasons not yet understood; see DESIGN.md §8)
        _ => vec![],
    };
    for (mode, scenarios, seeds, rates, also_nopf) in plan {
        let r = miri::run_plan(prop, mode, seed, scenarios, seeds, rates, also_nopf);
        ex.evaluations += r.executions;
        ex.found.extend(r.found);
        ex.harness_errors.extend(r.harness_errors);
        ex.coverage.insert(format!("miri_{mode}"), r.coverage);
    }
    ex
}

/// `qsim selfcheck determinism [props...]`: every run seed of a batch is executed in fresh processes at worker
/// counts 1, 5 and 16, for several VERIF_SEED values; the per-run digests must be identical maps.
fn selfcheck_determinism(props: &[String]) -> i32 {
    let props: Vec<String> = if props.is_empty() { cases::CLAIMED.iter().map(|s| s.to_string()).collect() } else { props.to_vec() };
    let runs: u64 = std::env::var("QSIM_RUNS").ok().and_then(|s| s.parse().ok()).unwrap_or(2000);
    let seeds: Vec<u64> = std::env::var("QSIM_SEEDS")
        .ok()
        .map(|s| s.split(',').filter_map(|x| x.parse().ok()).collect())
        .unwrap_or_else(|| vec![1, 2, 3]);
    let mut report = serde_json::Map::new();
    let mut bad = 0;
    for prop in &props {
        let mut per_prop = vec![];
        for (pname, exe, _) in sup::profiles(prop) {
            let total = if prop == "C18" { runs.min(60) } else { runs };
            for &seed in &seeds {
                let mut reference: Option<std::collections::BTreeMap<u64, u64>> = None;
                let mut diverging = 0u64;
                for workers in [1u64, 5, 16] {
                    let br = sup::run_batch(&exe, prop, Tier::Quick, seed, total, workers);
                    match &reference {
                        None => reference = Some(br.digests),
                        Some(r) => {
                            for (k, v) in &br.digests {
                                if r.get(k) != Some(v) {
                                    diverging += 1;
                                    if diverging <= 3 {
                                        println!("DIVERGENCE property={prop} profile={pname} seed={seed} run={k} workers={workers}");
                                    }
                                }
                            }
                            if br.digests.len() != r.len() {
                                diverging += 1;
                            }
                        }
                    }
                }
                println!("determinism property={prop} profile={pname} VERIF_SEED={seed} runs={total} x workers{{1,5,16}} diverging={diverging}");
                per_prop.push(serde_json::json!({"profile": pname, "seed": seed, "runs": total, "worker_counts": [1, 5, 16], "diverging_runs": diverging}));
                if diverging > 0 {
                    bad += 1;
                }
            }
        }
        report.insert(prop.clone(), serde_json::Value::Array(per_prop));
    }
    let path = sup::verif_dir().join("evidence").join("selfcheck_determinism.json");
    let _ = std::fs::create_dir_all(path.parent().unwrap());
    let _ = std::fs::write(&path, serde_json::to_string_pretty(&serde_json::Value::Object(report)).unwrap());
    if bad > 0 {
        println!("selfcheck determinism: FAILED ({bad} batches diverged)");
        1
    } else {
        println!("selfcheck determinism: ok");
        0
    }
}

fn usage() -> i32 {
    eprintln!("usage: qsim <C02|C03|...> quick|thorough | replay <file> | worker ... | one ... | minimise <in> <out> | exec-case <file>");
    2
}

fn main() {
    let args: Vec<String> = std::env::args().skip(1).collect();
    if args.is_empty() {
        std::process::exit(usage());
    }
    let code = match args[0].as_str() {
        "selfcheck" if args.len() >= 2 && args[1] == "determinism" => selfcheck_determinism(&args[2..]),
        "worker" => sup::worker_main(&args[1..]),
        "one" => sup::one_main(&args[1..]),
        "replay" if args.len() == 2 => sup::replay_main(&args[1]),
        "exec-case" if args.len() == 2 => sup::exec_case_main(&args[1]),
        "minimise" if args.len() == 3 => minimise::minimise_main(&args[1], &args[2]),
        p if cases::CLAIMED.contains(&p) && args.len() >= 2 => match Tier::parse(&args[1]) {
            Some(tier) => sup::check_main(p, tier, &|tier, seed, planned, first| extra_engines(p, tier, seed, planned, first)),
            None => usage(),
        },
        _ => usage(),
    };
    std::process::exit(code);
}
