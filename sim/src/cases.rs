//! The explicit case of every property, the per-tier run plans, and dispatch to the workloads.

use serde::{Deserialize, Serialize};

use crate::core::{RunOut, Tier};
use crate::prng::run_seed;
use crate::trees::{self, TreeCase};

#[derive(Clone, Debug, Serialize, Deserialize)]
pub enum Case {
    Tree(TreeCase),
}

pub const CLAIMED: [&str; 2] = ["C02", "C03"];

/// Number of runs of a batch (fixed counts, never "run for N seconds").
pub fn plan_runs(prop: &str, tier: Tier) -> u64 {
    let (main, exhaustive, deep) = plan_parts(prop, tier);
    main + exhaustive + deep
}

/// (main runs, exhaustive-order runs, deepest-code runs)
pub fn plan_parts(prop: &str, tier: Tier) -> (u64, u64, u64) {
    let scale = |q: u64, t: u64| match tier {
        Tier::Quick => q,
        Tier::Thorough => t,
    };
    match prop {
        "C02" => (scale(6000, 300_000), scale(240, 6000), scale(0, 12)),
        "C03" => (scale(6000, 300_000), scale(240, 6000), scale(0, 8)),
        _ => (0, 0, 0),
    }
}

pub fn gen(prop: &str, seed: u64, tier: Tier, r: u64) -> Case {
    let rs = run_seed(seed, prop, r);
    match prop {
        "C02" | "C03" => {
            let (main, exhaustive, _deep) = plan_parts(prop, tier);
            if r < main {
                Case::Tree(trees::gen_case(prop, rs, tier))
            } else if r < main + exhaustive {
                Case::Tree(trees::gen_exhaustive_case(prop, rs))
            } else {
                let k = (r - main - exhaustive) as usize;
                // quad: 14..=17 levels (17 exceeds the 32-bit code word); binary: 27..=33 (33 exceeds it)
                let levels = if prop == "C02" { 14 + k % 4 } else { 27 + (k % 4) * 2 };
                Case::Tree(trees::gen_deep_case(prop, rs, levels))
            }
        }
        _ => panic!("harness bug: unknown property {prop}"),
    }
}

pub fn exec(case: &Case) -> RunOut {
    match case {
        Case::Tree(c) => trees::exec(c),
    }
}

pub fn property_of(case: &Case) -> String {
    match case {
        Case::Tree(c) => c.property.clone(),
    }
}

/// A compact rendering of a case for the evidence file.
pub fn sample_json(case: &Case) -> serde_json::Value {
    let v = serde_json::to_value(case).unwrap_or(serde_json::Value::Null);
    truncate_json(v, 0)
}

fn truncate_json(v: serde_json::Value, depth: usize) -> serde_json::Value {
    use serde_json::Value;
    match v {
        Value::Array(a) => {
            let n = a.len();
            let keep = if depth == 0 { 64 } else { 24 };
            let mut out: Vec<Value> = a.into_iter().take(keep).map(|x| truncate_json(x, depth + 1)).collect();
            if n > keep {
                out.push(Value::String(format!("... {} more", n - keep)));
            }
            Value::Array(out)
        }
        Value::Object(o) => Value::Object(o.into_iter().map(|(k, x)| (k, truncate_json(x, depth + 1))).collect()),
        x => x,
    }
}

pub fn rule(prop: &str) -> &'static str {
    match prop {
        "C02" => "one case = one generated sequence (frequency-profile generator: single, equiprobable, geometric, plateaus, zipf, near-ties, heavy+singletons, deep, random; dense/holed/high/power-of-4 alphabets; 4 arrangements) built K times through the real constructor under K simulated enumeration orders of the two hash maps (canonical, reverse, seeded; all permutations for alphabets <= 6) and swept with get/rank/rank_prefetch/select against the naive model. distinct = distinct serialized structures (FNV of the bincode bytes) reached; non-trivial = the sequence has >= 2 distinct symbols (so a code table exists and enumeration order can matter)",
        "C03" => "as C02 with binary fragments; alias HWT (two simulated hash-map orders) in 2/3 of the cases and WT (no seam, control for the shared binary machinery) in 1/3; distinct = distinct serialized structures; non-trivial = >= 2 distinct symbols",
        _ => "",
    }
}
