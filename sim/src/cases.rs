//! The explicit case of every property, the per-tier run plans, and dispatch to the workloads.

use serde::{Deserialize, Serialize};

use crate::bvm::{self, BvmCase};
use crate::core::{RunOut, Tier};
use crate::iters::{self, IterCase};
use crate::pf::{self, PfCase};
use crate::prng::run_seed;
use crate::qvb::{self, QvbCase};
use crate::ser::{self, SerCase};
use crate::thr::{self, ThrCase};
use crate::trees::{self, TreeCase};

#[derive(Clone, Debug, Serialize, Deserialize)]
pub enum Case {
    Tree(TreeCase),
    Bvm(BvmCase),
    Iter(IterCase),
    Qvb(QvbCase),
    Ser(SerCase),
    Pf(PfCase),
    Thr(ThrCase),
    Miri(crate::miri::MiriCase),
}

pub const CLAIMED: [&str; 8] = ["C02", "C03", "C08", "C09", "C11", "C12", "C13", "C18"];

/// Number of runs of a batch (fixed counts, never "run for N seconds").
pub fn plan_runs(prop: &str, tier: Tier) -> u64 {
    let (main, exhaustive, deep) = plan_parts(prop, tier);
    main + exhaustive + deep + plan_big(prop, tier) + plan_huge(prop, tier)
}

/// Runs on inputs of 2^20 symbols and more, placed first.
pub fn plan_huge(prop: &str, tier: Tier) -> u64 {
    match (prop, tier) {
        ("C02" | "C03", Tier::Quick) => 12,
        ("C02" | "C03", Tier::Thorough) => 240,
        _ => 0,
    }
}

/// Runs on large inputs (more than 65 536 elements), appended after the other parts.
pub fn plan_big(prop: &str, tier: Tier) -> u64 {
    match (prop, tier) {
        ("C02" | "C03", Tier::Quick) => 160,
        ("C02" | "C03", Tier::Thorough) => 1500,
        _ => 0,
    }
}

/// (main runs, exhaustive-order runs, deepest-code runs)
pub fn plan_parts(prop: &str, tier: Tier) -> (u64, u64, u64) {
    let scale = |q: u64, t: u64| match tier {
        Tier::Quick => q,
        Tier::Thorough => t,
    };
    match prop {
        "C02" => (scale(24_000, 250_000), scale(600, 6_000), scale(0, 12)),
        "C03" => (scale(24_000, 250_000), scale(600, 6_000), scale(0, 8)),
        "C08" => (scale(60_000, 2_000_000), 0, 0),
        "C09" => (scale(6_000, 300_000), 0, 0),
        "C11" => (scale(60_000, 2_000_000), 0, 0),
        "C12" => (scale(400_000, 30_000_000), 0, 0),
        "C13" => (scale(400_000, 30_000_000), 0, 0),
        // (scenarios with a concurrent phase, purity-only scenarios, -)
        "C18" => (scale(400, 4_000), scale(3_000, 60_000), 0),
        _ => (0, 0, 0),
    }
}

pub fn gen(prop: &str, seed: u64, tier: Tier, r: u64) -> Case {
    let rs = run_seed(seed, prop, r);
    match prop {
        "C02" | "C03" => {
            let (main, exhaustive, _deep) = plan_parts(prop, tier);
            let big = plan_big(prop, tier);
            let huge = plan_huge(prop, tier);
            // large inputs come first so that the chk profile (a prefix of the run indices) sees them too
            if r < huge {
                return Case::Tree(trees::gen_huge_case(prop, rs, tier));
            }
            let r = r - huge;
            if r < big {
                return Case::Tree(trees::gen_big_case(prop, rs, tier));
            }
            let r = r - big;
            if r < main {
                Case::Tree(trees::gen_case(prop, rs, tier))
            } else if r < main + exhaustive {
                Case::Tree(trees::gen_exhaustive_case(prop, rs))
            } else {
                let k = (r - main - exhaustive) as usize;
                // quad: 14..=17 levels (17 exceeds the 32-bit code word); binary: 27..=33 (33 exceeds it)
                let levels = if prop == "C02" { 14 + k % 4 } else { 27 + (k % 4) * 2 };
                Case::Tree(trees::gen_deep_case(prop, rs, levels))
            }
        }
        "C08" => Case::Bvm(bvm::gen_case(rs, tier)),
        "C09" => {
            // the first runs are the largest ones (every build profile re-runs a prefix of the run indices)
            let huge = match tier {
                Tier::Quick => 16,
                Tier::Thorough => 200,
            };
            if r < huge {
                Case::Pf(pf::gen_huge_case(rs, tier))
            } else {
                Case::Pf(pf::gen_case(rs, tier))
            }
        }
        "C11" => Case::Ser(ser::gen_case(rs, tier)),
        "C12" => Case::Iter(iters::gen_case(rs, tier)),
        "C13" => Case::Qvb(qvb::gen_case(rs, tier)),
        "C18" => {
            let (full, _seq, _) = plan_parts(prop, tier);
            if r < full {
                Case::Thr(thr::gen_case(rs, tier))
            } else {
                Case::Thr(thr::gen_seq_case(rs, tier))
            }
        }
        _ => panic!("harness bug: unknown property {prop}"),
    }
}

pub fn exec(case: &Case) -> RunOut {
    match case {
        Case::Tree(c) => trees::exec(c),
        Case::Bvm(c) => bvm::exec(c),
        Case::Iter(c) => iters::exec(c),
        Case::Qvb(c) => qvb::exec(c),
        Case::Ser(c) => ser::exec(c),
        Case::Pf(c) => pf::exec(c),
        Case::Thr(c) => thr::exec(c),
        Case::Miri(c) => crate::miri::exec(c),
    }
}

/// Shape of a case whose execution killed the process (no oracle ran, so the shape comes from the input alone).
pub fn death_shape(case: &Case) -> String {
    match case {
        Case::Tree(c) => trees::input_shape(c),
        _ => "general".into(),
    }
}

/// After minimisation: lets a case absorb artefacts of its violation (C18: the failing schedule).
pub fn finalize(case: &Case, detail: &str) -> Case {
    match case {
        Case::Thr(c) => {
            let mut c = c.clone();
            if let Some(a) = detail.find("schedule=\"") {
                let rest = &detail[a + 10..];
                if let Some(b) = rest.find('"') {
                    if !rest[..b].is_empty() {
                        c.replay_schedule = Some(rest[..b].to_string());
                    }
                }
            }
            Case::Thr(c)
        }
        other => other.clone(),
    }
}

/// A compact rendering of a case for the evidence file.
pub fn sample_json(case: &Case) -> serde_json::Value {
    let v = serde_json::to_value(case).unwrap_or(serde_json::Value::Null);
    truncate_json(v, 0)
}

fn truncate_json(v: serde_json::Value, depth: usize) -> serde_json::Value {
    use serde_json::Value;
    match v {
        Value::Array(a) => {
            let n = a.len();
            let keep = 24;
            let mut out: Vec<Value> = a.into_iter().take(keep).map(|x| truncate_json(x, depth + 1)).collect();
            if n > keep {
                out.push(Value::String(format!("... {} more", n - keep)));
            }
            Value::Array(out)
        }
        Value::String(s) if s.len() > 160 => Value::String(format!("{}... ({} chars)", &s[..160], s.len())),
        Value::Object(o) => Value::Object(o.into_iter().map(|(k, x)| (k, truncate_json(x, depth + 1))).collect()),
        x => x,
    }
}

pub fn rule(prop: &str) -> &'static str {
    match prop {
        "C02" => "one case = one generated sequence (frequency-profile generator: single, equiprobable, geometric, plateaus, zipf, near-ties, heavy+singletons, deep, random; dense/holed/high/power-of-4 alphabets; 4 arrangements) built K times through the real constructor under K simulated enumeration orders of the two hash maps (canonical, reverse, seeded; all permutations for alphabets <= 6) and swept with get/rank/rank_prefetch/select against the naive model. distinct = distinct serialized structures (FNV of the bincode bytes) reached; non-trivial = the sequence has >= 2 distinct symbols (so a code table exists and enumeration order can matter)",
        "C03" => "as C02 with binary fragments; alias HWT (two simulated hash-map orders) in 2/3 of the cases and WT (no seam, control for the shared binary machinery) in 1/3; distinct = distinct serialized structures; non-trivial = >= 2 distinct symbols",
        "C08" => "one case = an initial state (new / with_capacity / with_zeros / collected from bools / collected from positions) plus a history of up to 40 (quick) or 60 (thorough) operations drawn with per-run weights from push, append_bits, extend_with_zeros, set, set_bits, extend(bools), extend(positions) - from sources with exact or unhelpful size hints, and from faulty sources that end early or panic after j values (panic caught, history continues) -, shrink_to_fit and the lifecycle events clone, clone_from into an existing vector, freeze/thaw, iter().collect(), into_iter().collect(), persist+restart through the simulated disk under retryable faults; the Vec<bool> model is compared after every step (len, counts, get, get_bits, get_word) and fully (iterators incl. step_by/nth/len/count/last, *_with_pos, unchecked readers inside their preconditions, frozen readers, positions of every integer type, ==) every 8th step and at the end. distinct = distinct (initial state kind, operation-kind sequence, final length mod 512, density class) fingerprints; non-trivial = history of >= 2 operations",
        "C09" => "one case = a quad tree (8 aliases) over a generated sequence of up to 20000 (quick) / 70000 (thorough) symbols with 2..1000 distinct symbols; ~400 (symbol, position) pairs, valid or not; rank_prefetch is compared with rank with the prefetch fault point disarmed, then again (together with get) with every prefetch offset perturbed at the sink with per-run probability and kind mask; per-run answer digests are compared with the build without the crate's prefetch feature; the tree is queried as built, reloaded, cloned, after clone_from into an existing smaller tree, or loaded from the bytes of the alias that differs only in prefetch support. distinct = distinct (alias, levels, sampling periods, perturbation probability, kind mask); non-trivial = >= 2 levels",
        "C11" => "one case = one value of one of the 19 serializable public types (trees under seeded enumeration orders, bit/quad structures incl. bit strings shaped after the select inventories, Default values; half of the values serialized right after another, larger value of the same type on the same thread) x one of 5 bincode configurations x a transport: fault-free in-memory (40%) or the simulated disk with an explicit fault script keyed by byte offset (short writes/reads, EINTR, optional BufWriter/BufReader of random capacity, sync, crash after sync; in 30% of faulty runs also hard errors, crash before sync, early EOF, which are informational only). Obligations when owed: success, ==, byte-identical re-serialization, 60 queries answered identically. distinct = distinct (type, configuration, fault-kind set, transport knobs, size class); non-trivial = non-empty value",
        "C12" => "one case = a container (10 tree aliases under seeded enumeration orders, BitVector, BitVectorMut, DArray, QVector, RSQVector; 0..600 elements, sparse bit containers of 513..3300 bits, and Default-constructed values of every type), one of its iterators (iter, (&x).into_iter, into_iter, ones/zeros[_with_pos] with start positions at word/line boundaries, inside and past the end) and a history of up to 2n+12 calls over the methods that iterator has {next, next_back, len, size_hint, nth, nth_back} optionally ended by fold / count / last on the rest; a VecDeque model is compared after every call, including after exhaustion; a panic while obtaining the iterator is a violation; terminal calls also rfold / min_by_key / max_by_key; containers in four incarnations (built, reloaded, clone, clone_from) and bit vectors grown by a history. distinct = distinct (iterator type, iterator kind, size class, first 24 calls, length class); non-trivial = >= 2 elements and >= 3 calls",
        "C13" => "one case = QVectorBuilder::new / with_capacity / collect, then up to 30 operations from push(any u8), extend(vector of one of the 12 integer types, any bit pattern), clone-and-continue, snapshot (clone().build() compared with the model), finally build(); or QVector::from_iter directly; the source iterators of collect/extend report exact or legal-but-unhelpful size hints ((0,None), (0,Some(usize::MAX)), (<=1,Some(2^62)), (0,Some(2^63+5))); builders also Default / clone_from / extend from faulty sources (end early, panic after j values); every built vector is observed through len/is_empty/get (incl. far out-of-range indices), iter/into_iter collect and fold on partly consumed iterators, skip(k)/step_by(k)/nth(k). Model = Vec<u8> of the two low bits. distinct = distinct (operation-kind sequence, length mod 256, lines); non-trivial = >= 2 symbols",
        "C18" => "one scenario = one immutable structure (19 types; as built, reloaded, clone or clone_from; one in ten a *Pfs tree with non-trivial prefetch samples queried through rank_prefetch) with a batch of 30..90 queries: sequential purity (answers repeated and in another order, serialized bytes before/after), then 2..4 simulated threads each issuing an overlapping two-thirds slice of the batch on the shared reference under seeded random or PCT schedules with scheduling points between queries and at the H4 points inside query loops; every answer is asserted against the single-thread answer; plus Miri executions (real threads, interpreter-seeded pre-emption at any basic block, data-race detection) of the scenarios c18all / c18big / c18quad. in addition 3000 (quick) / 60000 (thorough) purity-only scenarios without a concurrent phase: larger structures (1 in 12 beyond 65 536 elements), 120..400 queries including data-aware ones (the occurrence right after every run boundary, first and last occurrence). evaluations counts scenarios; distinct = distinct schedules (hash of the sequence of scheduling choices); non-trivial = non-empty structure",
        _ => "",
    }
}
