//! Driver of the Miri engine: runs `qmiri` scenarios under `cargo +nightly miri` with many interpreter seeds.
//! A Miri seed fixes the interpreter's thread scheduler and RNG (hence the real `RandomState` keys), so
//! (scenario seed, miri seed, pre-emption rate) is an exactly repeatable execution.

use std::path::PathBuf;
use std::process::Command;

use serde::{Deserialize, Serialize};

use crate::cases::Case;
use crate::core::{RunOut, Sig, Violation};
use crate::sup::Found;

#[derive(Clone, Debug, PartialEq, Serialize, Deserialize)]
pub struct MiriCase {
    pub property: String,
    pub mode: String,
    pub scenario_seed: u64,
    /// interpreter seeds `from..to`
    pub miri_seeds: (u32, u32),
    pub preemption_rate: String,
    /// build qwt without its `prefetch` feature
    pub no_prefetch: bool,
}

pub struct MiriOutcome {
    pub ok: bool,
    /// "data_race" | "undefined_behaviour" | "oracle_failed" | "build_failed" | "inconclusive"
    pub class: String,
    pub excerpt: String,
    pub unavailable: bool,
}

fn sim_dir() -> Option<PathBuf> {
    std::env::var("QSIM_SIM_DIR").ok().map(PathBuf::from)
}

pub fn run_case(c: &MiriCase) -> MiriOutcome {
    let Some(dir) = sim_dir() else {
        return MiriOutcome {
            ok: false,
            class: "inconclusive".into(),
            excerpt: "QSIM_SIM_DIR not set (run through /verif/check)".into(),
            unavailable: true,
        };
    };
    let target = std::env::var("CARGO_TARGET_DIR").unwrap_or_else(|_| "/verif/target".into());
    let mut cmd = Command::new("cargo");
    cmd.current_dir(&dir)
        .env("CARGO_TARGET_DIR", format!("{target}/miri"))
        .env("RUSTFLAGS", "--cfg qwt_verif -Awarnings -C target-feature=+popcnt")
        .env(
            "MIRIFLAGS",
            format!(
                "-Zmiri-many-seeds={}..{} -Zmiri-preemption-rate={}",
                c.miri_seeds.0, c.miri_seeds.1, c.preemption_rate
            ),
        )
        .env_remove("SHUTTLE_RANDOM_SEED")
        .args(["+nightly", "miri", "run", "--offline", "--bin", "qmiri"]);
    if c.no_prefetch {
        cmd.args(["--no-default-features", "--features", "miri-engine"]);
    } else {
        cmd.args(["--features", "miri-engine"]);
    }
    cmd.args(["--", &c.mode, &c.scenario_seed.to_string()]);
    cmd.stdout(std::process::Stdio::piped()).stderr(std::process::Stdio::piped());
    let child = match cmd.spawn() {
        Ok(c) => c,
        Err(e) => {
            return MiriOutcome {
                ok: false,
                class: "inconclusive".into(),
                excerpt: format!("cannot run cargo miri: {e}"),
                unavailable: true,
            }
        }
    };
    // an interpreter run that does not come back within 40 minutes is abandoned (inconclusive, never a violation).
    // Only cargo is killed; orphaned interpreter processes end with their seeds.
    let watch = crate::sup::Watchdog::start(child.id(), 2400);
    let out = match child.wait_with_output() {
        Ok(o) => o,
        Err(e) => {
            watch.finish();
            return MiriOutcome {
                ok: false,
                class: "inconclusive".into(),
                excerpt: format!("cargo miri: {e}"),
                unavailable: false,
            };
        }
    };
    if watch.finish() {
        return MiriOutcome {
            ok: false,
            class: "inconclusive".into(),
            excerpt: "interpreter run abandoned after 2400 s".into(),
            unavailable: false,
        };
    }
    let stdout = String::from_utf8_lossy(&out.stdout).to_string();
    let stderr = String::from_utf8_lossy(&out.stderr).to_string();
    if out.status.success() {
        return MiriOutcome {
            ok: true,
            class: String::new(),
            excerpt: String::new(),
            unavailable: false,
        };
    }
    // the dbg!() calls of BitVectorBitPositionsIter::with_pos flood stderr; keep only the diagnostics
    let diag: Vec<&str> = stderr
        .lines()
        .filter(|l| !(l.contains("] pos = ") || l.contains("] l = ")))
        .filter(|l| !l.trim().is_empty() && l.trim().parse::<u64>().is_err())
        .collect();
    let text = diag.join("\n");
    let class = if text.contains("Data race detected") {
        "data_race"
    } else if text.contains("Undefined Behavior") {
        "undefined_behaviour"
    } else if stdout.contains("C18-MISMATCH") || stdout.contains("VIOL ") {
        "oracle_failed"
    } else if text.contains("could not compile") || text.contains("error[E") {
        "build_failed"
    } else {
        "inconclusive"
    };
    let lines: Vec<&str> = text.lines().collect();
    let first_err = lines
        .iter()
        .position(|l| l.starts_with("error"))
        .map(|i| lines[i..lines.len().min(i + 14)].join(" | "))
        .unwrap_or_else(|| lines[lines.len().saturating_sub(8)..].join(" | "));
    let seed_lines: Vec<&str> = lines
        .iter()
        .copied()
        .filter(|l| l.to_lowercase().contains("seed") && (l.contains("ail") || l.contains("rying")))
        .take(3)
        .collect();
    let viol_lines: Vec<&str> = stdout
        .lines()
        .filter(|l| l.starts_with("VIOL ") || l.contains("C18-MISMATCH"))
        .take(3)
        .collect();
    MiriOutcome {
        ok: false,
        class: class.to_string(),
        excerpt: format!("{} {} {}", viol_lines.join(" | "), seed_lines.join(" | "), first_err)
            .chars()
            .take(1800)
            .collect(),
        unavailable: class == "build_failed",
    }
}

/// Which outcome classes are violations of which property (everything else is an inconclusive run).
fn is_violation(prop: &str, class: &str) -> bool {
    match prop {
        // only a data race or a wrong answer speaks about C18
        "C18" => matches!(class, "data_race" | "oracle_failed"),
        // the estimates "are never dereferenced and never turn into ... an out-of-bounds access"
        "C09" => matches!(class, "undefined_behaviour" | "data_race" | "oracle_failed"),
        // answers under the orders of the real hasher; UB belongs to C04
        _ => class == "oracle_failed",
    }
}

pub fn exec(c: &MiriCase) -> RunOut {
    let mut out = RunOut::default();
    let r = run_case(c);
    out.count("miri_executions", (c.miri_seeds.1 - c.miri_seeds.0) as u64);
    if !r.ok {
        if is_violation(&c.property, &r.class) {
            out.violate(
                Sig {
                    property: c.property.clone(),
                    family: "miri".into(),
                    op: c.mode.clone(),
                    class: r.class.clone(),
                    shape: "interpreter".into(),
                },
                format!(
                    "qmiri {} {} under Miri (seeds {}..{}, pre-emption {}{}): {}",
                    c.mode,
                    c.scenario_seed,
                    c.miri_seeds.0,
                    c.miri_seeds.1,
                    c.preemption_rate,
                    if c.no_prefetch { ", no prefetch feature" } else { "" },
                    r.excerpt
                ),
            );
        } else {
            out.count("miri_inconclusive", 1);
        }
    }
    out.digest = r.ok as u64;
    out
}

pub struct PlanResult {
    pub executions: u64,
    pub found: Vec<Found>,
    pub harness_errors: Vec<String>,
    pub coverage: serde_json::Value,
}

pub fn run_plan(prop: &str, mode: &str, seed: u64, scenarios: u64, seeds: u32, rates: &[&str], also_nopf: bool) -> PlanResult {
    let t0 = std::time::Instant::now();
    let mut res = PlanResult {
        executions: 0,
        found: vec![],
        harness_errors: vec![],
        coverage: serde_json::Value::Null,
    };
    let mut inconclusive = vec![];
    let mut clean = 0u64;
    let variants: Vec<bool> = if also_nopf { vec![false, true] } else { vec![false] };
    let mut cases: Vec<MiriCase> = vec![];
    for sc in 0..scenarios {
        for rate in rates {
            for &nopf in &variants {
                cases.push(MiriCase {
                    property: prop.to_string(),
                    mode: mode.to_string(),
                    scenario_seed: seed.wrapping_mul(1000).wrapping_add(sc),
                    miri_seeds: (0, seeds),
                    preemption_rate: rate.to_string(),
                    no_prefetch: nopf,
                });
            }
        }
    }
    // make sure the interpreter build exists before fanning out (one tiny, sequential invocation)
    if let Some(first) = cases.first() {
        let mut warm = first.clone();
        warm.miri_seeds = (0, 1);
        warm.mode = "warm".into(); // compiles the engine if needed, executes nothing
        let r = run_case(&warm);
        if r.unavailable {
            res.harness_errors.push(format!("Miri engine unavailable: {}", r.excerpt));
            cases.clear();
        }
    }
    // each invocation interprets its `seeds` executions in parallel; run as many invocations side by side as fit
    let cores = std::thread::available_parallelism().map(|n| n.get()).unwrap_or(4);
    let lanes = (cores / (seeds as usize).max(1)).clamp(1, 6);
    let results: Vec<(MiriCase, MiriOutcome)> = {
        let queue = std::sync::Mutex::new(cases.clone().into_iter().enumerate().collect::<Vec<_>>());
        let out = std::sync::Mutex::new(Vec::<(usize, MiriCase, MiriOutcome)>::new());
        std::thread::scope(|sc| {
            for _ in 0..lanes {
                sc.spawn(|| loop {
                    let next = queue.lock().unwrap().pop();
                    let Some((i, c)) = next else { break };
                    let r = run_case(&c);
                    out.lock().unwrap().push((i, c, r));
                });
            }
        });
        let mut v = out.into_inner().unwrap();
        v.sort_by_key(|x| x.0);
        v.into_iter().map(|(_, c, r)| (c, r)).collect()
    };
    for (c, r) in results {
        res.executions += seeds as u64;
        let rate = &c.preemption_rate;
        let nopf = c.no_prefetch;
        if r.ok {
            clean += seeds as u64;
        } else if r.unavailable {
            res.harness_errors.push(format!("Miri engine unavailable: {}", r.excerpt));
        } else if is_violation(prop, &r.class) {
            res.found.push((
                "external".to_string(),
                c.scenario_seed,
                Case::Miri(c.clone()),
                Violation {
                    sig: Sig {
                        property: prop.to_string(),
                        family: "miri".into(),
                        op: mode.to_string(),
                        class: r.class.clone(),
                        shape: "interpreter".into(),
                    },
                    detail: format!(
                        "qmiri {mode} {} under Miri (seeds 0..{seeds}, pre-emption {rate}{}): {}",
                        c.scenario_seed,
                        if nopf { ", no prefetch feature" } else { "" },
                        r.excerpt
                    ),
                },
            ));
        } else {
            inconclusive.push(format!(
                "scenario {} rate {rate}: {} {}",
                c.scenario_seed,
                r.class,
                r.excerpt.chars().take(300).collect::<String>()
            ));
        }
    }
    res.coverage = serde_json::json!({
        "engine": "cargo +nightly miri run (qmiri), -Zmiri-many-seeds: real std threads / real RandomState under the interpreter's seeded scheduler and RNG; data-race and undefined-behaviour detection",
        "mode": mode,
        "scenarios": scenarios,
        "interpreter_seeds_per_scenario": seeds,
        "preemption_rates": rates,
        "also_without_prefetch_feature": also_nopf,
        "interpreted_executions": res.executions,
        "clean_executions": clean,
        "inconclusive_runs": inconclusive,
        "wall_s": t0.elapsed().as_secs_f64(),
    });
    res
}
