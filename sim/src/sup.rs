//! Supervisor / worker: forks worker processes over interleaved run indices, survives worker death,
//! folds per-run digests in index order, filters known findings, minimises and writes replay files,
//! writes the evidence file.

use std::collections::{BTreeMap, BTreeSet};
use std::io::{BufRead, BufReader, Write};
use std::path::{Path, PathBuf};
use std::process::{Command, Stdio};
use std::time::Instant;

use serde::{Deserialize, Serialize};
use serde_json::json;

use crate::cases::{self, Case};
use crate::core::{RunOut, Sig, Tier, Violation};
use crate::prng::{fnv, mix};

pub fn verif_dir() -> PathBuf {
    std::env::var("QSIM_VERIF_DIR")
        .map(PathBuf::from)
        .unwrap_or_else(|_| PathBuf::from("/verif"))
}

pub fn seed_from_env() -> u64 {
    std::env::var("VERIF_SEED")
        .ok()
        .and_then(|s| s.trim().parse::<u64>().ok())
        .unwrap_or(1)
}

pub fn tmp_dir() -> PathBuf {
    let d = std::env::var("CARGO_TARGET_DIR")
        .map(PathBuf::from)
        .unwrap_or_else(|_| verif_dir().join("target"))
        .join("qsim-tmp");
    let _ = std::fs::create_dir_all(&d);
    d
}

// ------------------------------------------------------------------------------------------------ worker

#[derive(Serialize, Deserialize)]
struct ViolLine {
    r: u64,
    case: Case,
    viols: Vec<Violation>,
}

/// `qsim worker <prop> <tier> <seed> <start> <stride> <total> <fpfile>`
pub fn worker_main(args: &[String]) -> i32 {
    crate::core::limit_memory();
    let prop = &args[0];
    let tier = Tier::parse(&args[1]).expect("tier");
    let seed: u64 = args[2].parse().expect("seed");
    let start: u64 = args[3].parse().expect("start");
    let stride: u64 = args[4].parse().expect("stride");
    let total: u64 = args[5].parse().expect("total");
    let fpfile = &args[6];
    crate::core::install_quiet_panic_hook();
    std::env::set_var("QSIM_PHASE_FILE", format!("{fpfile}.phase"));
    let stdout = std::io::stdout();
    let mut w = std::io::BufWriter::new(stdout.lock());
    let mut counters: BTreeMap<String, u64> = BTreeMap::new();
    let mut fps: Vec<u8> = Vec::new();
    let mut nontrivial = 0u64;
    let mut samples_left = if start == 0 { 3 } else { 0 };
    let mut r = start;
    while r < total {
        writeln!(w, "S {r}").unwrap();
        w.flush().unwrap();
        let case = cases::gen(prop, seed, tier, r);
        // harness self-test only: pretend run QSIM_TEST_STALL_AT never finishes (exercises the watchdog)
        if std::env::var("QSIM_TEST_STALL_AT").ok().and_then(|s| s.parse::<u64>().ok()) == Some(r) {
            loop {
                std::thread::sleep(std::time::Duration::from_secs(1));
            }
        }
        let out = cases::exec(&case);
        for (k, v) in &out.counters {
            *counters.entry(k.clone()).or_insert(0) += v;
        }
        if out.nontrivial {
            nontrivial += 1;
            for fp in &out.fps {
                fps.extend_from_slice(&fp.to_le_bytes());
            }
        }
        if samples_left > 0 {
            samples_left -= 1;
            writeln!(w, "X {}", serde_json::to_string(&cases::sample_json(&case)).unwrap()).unwrap();
        }
        if !out.viols.is_empty() {
            let line = ViolLine {
                r,
                case,
                viols: out.viols.clone(),
            };
            writeln!(w, "V {}", serde_json::to_string(&line).unwrap()).unwrap();
        }
        writeln!(w, "E {r} {}", out.digest).unwrap();
        r += stride;
    }
    std::fs::write(fpfile, &fps).expect("write fingerprint file");
    writeln!(w, "C {}", serde_json::to_string(&counters).unwrap()).unwrap();
    writeln!(w, "N {nontrivial}").unwrap();
    writeln!(w, "DONE").unwrap();
    w.flush().unwrap();
    0
}

/// `qsim one <prop> <tier> <seed> <r>`: prints the explicit case, then executes it (crash confirmation).
pub fn one_main(args: &[String]) -> i32 {
    crate::core::limit_memory();
    let prop = &args[0];
    let tier = Tier::parse(&args[1]).expect("tier");
    let seed: u64 = args[2].parse().expect("seed");
    let r: u64 = args[3].parse().expect("r");
    crate::core::install_quiet_panic_hook();
    let case = cases::gen(prop, seed, tier, r);
    std::env::set_var("QSIM_PHASE_FILE", tmp_dir().join(format!("one-{}.phase", std::process::id())));
    println!("PHASEFILE {}", std::env::var("QSIM_PHASE_FILE").unwrap());
    println!("CASE {}", serde_json::to_string(&case).unwrap());
    std::io::stdout().flush().unwrap();
    if std::env::var("QSIM_TEST_STALL_AT").ok().and_then(|s| s.parse::<u64>().ok()) == Some(r) {
        loop {
            std::thread::sleep(std::time::Duration::from_secs(1));
        }
    }
    let out = cases::exec(&case);
    println!("E {r} {}", out.digest);
    for v in &out.viols {
        println!("V {}", serde_json::to_string(v).unwrap());
    }
    0
}

// ------------------------------------------------------------------------------------------------ findings

#[derive(Clone, Debug, Serialize, Deserialize)]
pub struct Finding {
    pub property: String,
    pub family: String,
    pub op: String,
    pub class: String,
    pub shape: String,
    pub what: String,
}

#[derive(Clone, Debug, Default, Serialize, Deserialize)]
pub struct KnownFindings {
    #[serde(default)]
    pub findings: Vec<Finding>,
    #[serde(default)]
    pub fixed: Vec<String>,
}

pub fn load_known() -> KnownFindings {
    let p = verif_dir().join("known_findings.json");
    match std::fs::read_to_string(&p) {
        Ok(s) => serde_json::from_str(&s).unwrap_or_else(|e| {
            eprintln!("HARNESS-ERROR: cannot parse {}: {e}", p.display());
            std::process::exit(2)
        }),
        Err(_) => KnownFindings::default(),
    }
}

/// A finding is identified by property, family and shape (never wildcarded) and by operation and outcome class,
/// which an entry may leave open ("*") when the finding is a whole input class (e.g. "any code longer than 32 bits").
fn match_known<'a>(k: &'a KnownFindings, s: &Sig) -> Option<&'a Finding> {
    k.findings.iter().find(|f| {
        f.property == s.property
            && f.family == s.family
            && f.shape == s.shape
            && (f.op == "*" || f.op == s.op)
            && (f.class == "*" || f.class == s.class)
    })
}

// ------------------------------------------------------------------------------------------------ replay files

#[derive(Clone, Debug, Serialize, Deserialize)]
pub struct ReplayFile {
    pub property: String,
    pub signature: Sig,
    pub detail: String,
    /// build profile in which it was observed: rel | chk | external
    #[serde(default)]
    pub profile: String,
    /// VERIF_SEED, tier and run index at which the case was first generated (informational: the case below is explicit)
    pub found_at: serde_json::Value,
    pub minimised: bool,
    /// 1 when the recorded case reproduces every time; larger when the violation depends on a source of
    /// nondeterminism outside the seams (replay then re-executes the case up to this many times)
    #[serde(default = "one")]
    pub attempts: u32,
    pub case: Case,
}

fn one() -> u32 {
    1
}

pub fn replay_main(path: &str) -> i32 {
    crate::core::install_quiet_panic_hook();
    let s = match std::fs::read_to_string(path) {
        Ok(s) => s,
        Err(e) => {
            eprintln!("HARNESS-ERROR: cannot read {path}: {e}");
            return 2;
        }
    };
    let rf: ReplayFile = match serde_json::from_str(&s) {
        Ok(r) => r,
        Err(e) => {
            eprintln!("HARNESS-ERROR: cannot parse {path}: {e}");
            return 2;
        }
    };
    if rf.profile == "sched" && std::env::var("QSIM_IS_SCHED").is_err() {
        if let Ok(bin) = std::env::var("QSIM_BIN_SCHED") {
            let st = Command::new(bin).args(["replay", path]).env("QSIM_IS_SCHED", "1").status();
            return st.ok().and_then(|s| s.code()).unwrap_or(2);
        }
    }
    if rf.profile == "chk" && std::env::var("QSIM_IS_CHK").is_err() {
        if let Ok(bin) = std::env::var("QSIM_BIN_CHK") {
            // the violation was observed in the build with debug assertions and overflow checks
            let st = Command::new(bin).args(["replay", path]).env("QSIM_IS_CHK", "1").status();
            return st.ok().and_then(|s| s.code()).unwrap_or(2);
        }
    }
    if !matches!(rf.case, Case::Miri(_)) {
        crate::core::limit_memory();
    }
    println!("replaying {} signature {} (profile {})", rf.property, rf.signature.key(), if rf.profile.is_empty() { "rel" } else { &rf.profile });
    let mut out = cases::exec(&rf.case);
    let mut tries = 1;
    while tries < rf.attempts.max(1) && !out.viols.iter().any(|v| v.sig == rf.signature) {
        out = cases::exec(&rf.case);
        tries += 1;
    }
    if rf.attempts > 1 {
        println!("the recorded violation is not deterministic under the simulator's choices; executed the case {tries} time(s)");
    }
    println!("digest {}", out.digest);
    for v in &out.viols {
        println!("observed: {} :: {}", v.sig.key(), v.detail);
    }
    if out.viols.iter().any(|v| v.sig == rf.signature) {
        println!("VIOLATION property={} replay={}", rf.property, path);
        1
    } else if let Some(v) = out.viols.first() {
        println!(
            "recorded signature not reproduced, but the case still violates {} ({})",
            v.sig.property,
            v.sig.key()
        );
        println!("VIOLATION property={} replay={}", v.sig.property, path);
        1
    } else {
        println!("no violation: the recorded case passes on this tree");
        0
    }
}

/// `qsim exec-case <file>`: execute a bare case file (used by the minimiser for crash-class violations).
pub fn exec_case_main(path: &str) -> i32 {
    crate::core::install_quiet_panic_hook();
    let s = std::fs::read_to_string(path).expect("read case");
    let case: Case = serde_json::from_str(&s).expect("parse case");
    if !matches!(case, Case::Miri(_)) {
        crate::core::limit_memory();
    }
    let out = cases::exec(&case);
    for v in &out.viols {
        println!("V {}", serde_json::to_string(v).unwrap());
    }
    println!("E 0 {}", out.digest);
    0
}

// ------------------------------------------------------------------------------------------------ supervisor

/// Set once a scenario blocked under the cooperative scheduler: later workers skip the shuttle phase.
static SHUTTLE_DISABLED: std::sync::atomic::AtomicBool = std::sync::atomic::AtomicBool::new(false);

/// Upper bound on the wall-clock time of a single run before it counts as stalled.
fn run_timeout_s(tier: Tier) -> u64 {
    std::env::var("QSIM_RUN_TIMEOUT_S")
        .ok()
        .and_then(|s| s.parse().ok())
        .unwrap_or(match tier {
            Tier::Quick => 300,
            Tier::Thorough => 3600,
        })
}

pub struct Watchdog {
    last: std::sync::Arc<std::sync::atomic::AtomicU64>,
    fired: std::sync::Arc<std::sync::atomic::AtomicBool>,
    stop: std::sync::mpsc::Sender<()>,
    t0: Instant,
    handle: Option<std::thread::JoinHandle<()>>,
}

impl Watchdog {
    pub fn start(pid: u32, limit_s: u64) -> Watchdog {
        use std::sync::atomic::{AtomicBool, AtomicU64, Ordering};
        use std::sync::Arc;
        let last = Arc::new(AtomicU64::new(0));
        let fired = Arc::new(AtomicBool::new(false));
        let t0 = Instant::now();
        let (stop, rx) = std::sync::mpsc::channel::<()>();
        let (l, f) = (last.clone(), fired.clone());
        let handle = std::thread::spawn(move || loop {
            match rx.recv_timeout(std::time::Duration::from_millis(500)) {
                Err(std::sync::mpsc::RecvTimeoutError::Timeout) => {}
                _ => break, // told to stop, or the owner went away
            }
            let now = t0.elapsed().as_secs();
            if now.saturating_sub(l.load(Ordering::SeqCst)) > limit_s {
                f.store(true, Ordering::SeqCst);
                let _ = Command::new("kill").args(["-9", &pid.to_string()]).status();
                break;
            }
        });
        Watchdog {
            last,
            fired,
            stop,
            t0,
            handle: Some(handle),
        }
    }
    fn touch(&self) {
        self.last.store(self.t0.elapsed().as_secs(), std::sync::atomic::Ordering::SeqCst);
    }
    /// Stops the watchdog; true if it had to kill the process.
    pub fn finish(mut self) -> bool {
        let _ = self.stop.send(());
        if let Some(h) = self.handle.take() {
            let _ = h.join();
        }
        self.fired.load(std::sync::atomic::Ordering::SeqCst)
    }
}

struct WorkerResult {
    digests: BTreeMap<u64, u64>,
    viols: Vec<ViolLine>,
    counters: BTreeMap<String, u64>,
    nontrivial: u64,
    samples: Vec<serde_json::Value>,
    /// run index at which the worker died, with the exit description
    died_at: Option<(u64, String)>,
    done: bool,
}

fn run_worker(
    exe: &Path,
    prop: &str,
    tier: Tier,
    seed: u64,
    start: u64,
    stride: u64,
    total: u64,
    fpfile: &Path,
) -> WorkerResult {
    let mut cmd = Command::new(exe);
    if SHUTTLE_DISABLED.load(std::sync::atomic::Ordering::SeqCst) {
        cmd.env("QSIM_NO_SHUTTLE", "1");
    }
    let mut child = cmd
        .args([
            "worker",
            prop,
            tier.name(),
            &seed.to_string(),
            &start.to_string(),
            &stride.to_string(),
            &total.to_string(),
            fpfile.to_str().unwrap(),
        ])
        .stdout(Stdio::piped())
        .stderr(Stdio::null())
        .spawn()
        .expect("spawn worker");
    let mut res = WorkerResult {
        digests: BTreeMap::new(),
        viols: vec![],
        counters: BTreeMap::new(),
        nontrivial: 0,
        samples: vec![],
        died_at: None,
        done: false,
    };
    let mut current: Option<u64> = None;
    let reader = BufReader::new(child.stdout.take().unwrap());
    // bounded progress: a run that does not finish within the limit is killed and charged to its index
    let watch = Watchdog::start(child.id(), run_timeout_s(tier));
    for line in reader.lines() {
        let Ok(line) = line else { break };
        let (tag, rest) = line.split_at(line.find(' ').unwrap_or(line.len()));
        let rest = rest.trim_start();
        match tag {
            "S" => {
                current = rest.parse().ok();
                watch.touch();
            }
            "E" => {
                let mut it = rest.split(' ');
                let r: u64 = it.next().unwrap().parse().unwrap();
                let d: u64 = it.next().unwrap().parse().unwrap();
                res.digests.insert(r, d);
                current = None;
            }
            "V" => {
                if let Ok(v) = serde_json::from_str::<ViolLine>(rest) {
                    res.viols.push(v)
                } else {
                    eprintln!("HARNESS-ERROR: unparsable violation line from worker");
                }
            }
            "X" => {
                if let Ok(v) = serde_json::from_str(rest) {
                    res.samples.push(v)
                }
            }
            "C" => res.counters = serde_json::from_str(rest).unwrap_or_default(),
            "N" => res.nontrivial = rest.parse().unwrap_or(0),
            "DONE" => res.done = true,
            _ => {}
        }
    }
    let status = child.wait().expect("wait worker");
    let stalled = watch.finish();
    let _phase_cleanup = (); // the phase file is removed by the caller together with the fingerprint file
    if !res.done {
        use std::os::unix::process::ExitStatusExt;
        let phase = std::fs::read_to_string(format!("{}.phase", fpfile.display())).unwrap_or_default();
        let desc = if stalled && phase.trim() == "shuttle" {
            // blocked while the cooperative scheduler was in charge: see thr.rs (std synchronisation primitives
            // are not modelled by shuttle; a task that blocks on one blocks the whole simulation)
            "stalled_in_shuttle_phase".to_string()
        } else if stalled {
            "stalled".to_string()
        } else {
            match status.signal() {
                Some(s) => format!("signal_{s}"),
                None => format!("exit_{}", status.code().unwrap_or(-1)),
            }
        };
        res.died_at = Some((current.unwrap_or(start), desc));
    }
    res
}

pub struct BatchResult {
    pub evaluations: u64,
    pub digests: BTreeMap<u64, u64>,
    pub batch_digest: u64,
    pub viols: Vec<(u64, Case, Violation)>,
    pub counters: BTreeMap<String, u64>,
    pub nontrivial: u64,
    pub distinct: u64,
    pub samples: Vec<serde_json::Value>,
    pub harness_errors: Vec<String>,
    pub harness_notes: Vec<String>,
}

/// Runs runs `0..total` of `prop` on `workers` processes.
pub fn run_batch(exe: &Path, prop: &str, tier: Tier, seed: u64, total: u64, workers: u64) -> BatchResult {
    let exe = exe.to_path_buf();
    let tmp = tmp_dir();
    let tag = format!("{}-{}-{}", prop, std::process::id(), seed);
    let workers = workers.max(1).min(total.max(1));
    let mut handles = vec![];
    for wi in 0..workers {
        let exe = exe.clone();
        let prop = prop.to_string();
        let tmp = tmp.clone();
        let tag = tag.clone();
        handles.push(std::thread::spawn(move || {
            // a worker that dies is charged to the run it was executing; the rest of its indices go to a fresh worker
            let mut results = vec![];
            let mut start = wi;
            let mut part = 0;
            let mut stalls = 0;
            loop {
                let fpfile = tmp.join(format!("{tag}-w{wi}-p{part}.fp"));
                let res = run_worker(&exe, &prop, tier, seed, start, workers, total, &fpfile);
                let died = res.died_at.clone();
                let _ = std::fs::remove_file(format!("{}.phase", fpfile.display()));
                results.push((res, fpfile));
                match died {
                    Some((r, desc)) => {
                        start = r + workers;
                        part += 1;
                        if desc == "stalled_in_shuttle_phase" {
                            SHUTTLE_DISABLED.store(true, std::sync::atomic::Ordering::SeqCst);
                        }
                        if desc.starts_with("stalled") {
                            stalls += 1;
                        }
                        // a lane whose workers keep dying is given up after 40 restarts, or after 2 stalls (a stall
                        // costs the whole watchdog period); its first deaths are reported
                        if start >= total || part > 40 || stalls > 2 {
                            break;
                        }
                    }
                    None => break,
                }
            }
            results
        }));
    }
    let mut br = BatchResult {
        evaluations: 0,
        digests: BTreeMap::new(),
        batch_digest: 0,
        viols: vec![],
        counters: BTreeMap::new(),
        nontrivial: 0,
        distinct: 0,
        samples: vec![],
        harness_errors: vec![],
        harness_notes: vec![],
    };
    let mut fps: Vec<u64> = vec![];
    let mut deaths: Vec<(u64, String)> = vec![];
    for h in handles {
        for (res, fpfile) in h.join().expect("worker thread") {
            br.digests.extend(res.digests);
            for v in res.viols {
                for viol in v.viols {
                    br.viols.push((v.r, v.case.clone(), viol));
                }
            }
            for (k, v) in res.counters {
                *br.counters.entry(k).or_insert(0) += v;
            }
            br.nontrivial += res.nontrivial;
            br.samples.extend(res.samples);
            if let Ok(bytes) = std::fs::read(&fpfile) {
                for c in bytes.chunks_exact(8) {
                    fps.push(u64::from_le_bytes(c.try_into().unwrap()));
                }
            }
            let _ = std::fs::remove_file(&fpfile);
            if let Some(d) = res.died_at {
                deaths.push(d);
            }
        }
    }
    // a death is confirmed by re-executing that run alone in a fresh process
    // confirm at most 24 deaths individually (lowest run indices first); a change that kills thousands of runs
    // does not need thousands of confirmations
    deaths.sort();
    if deaths.len() > 24 {
        br.harness_notes.push(format!("{} further worker deaths were not re-executed individually", deaths.len() - 24));
        deaths.truncate(24);
    }
    let shuttle_stalls: Vec<u64> = deaths.iter().filter(|d| d.1 == "stalled_in_shuttle_phase").map(|d| d.0).collect();
    if !shuttle_stalls.is_empty() {
        br.harness_notes.push(format!(
            "the shuttle phase of run(s) {:?} blocked (a task blocked on a synchronisation primitive shuttle does not model, e.g. a std Mutex held across a scheduling point); this is an artefact of cooperative scheduling, not a verdict: the shuttle phase was skipped for the rest of the batch and concurrency is left to the Miri engine",
            &shuttle_stalls[..shuttle_stalls.len().min(5)]
        ));
        *br.counters.entry("shuttle_phase_blocked".into()).or_insert(0) += shuttle_stalls.len() as u64;
    }
    deaths.retain(|d| d.1 != "stalled_in_shuttle_phase");
    for (r, desc) in deaths {
        let child = Command::new(&exe)
            .args(["one", prop, tier.name(), &seed.to_string(), &r.to_string()])
            .stdout(Stdio::piped())
            .stderr(Stdio::piped())
            .spawn()
            .expect("spawn one");
        let watch = Watchdog::start(child.id(), run_timeout_s(tier));
        let out = child.wait_with_output().expect("wait one");
        let stalled_again = watch.finish();
        let text = String::from_utf8_lossy(&out.stdout);
        let errtext = String::from_utf8_lossy(&out.stderr);
        if let Some(l) = errtext.lines().find(|l| l.starts_with("HARNESS-PANIC")) {
            br.harness_errors.push(format!("run {r} of {prop}: {l}"));
            continue;
        }
        let case_line = text.lines().find(|l| l.starts_with("CASE "));
        let finished = text.lines().any(|l| l.starts_with("E "));
        if finished {
            // A memory-fault signal in a worker whose run then completes alone: the harness contains no unsafe code,
            // so this is undefined behaviour in the library whose effect depends on heap state. Reported as a
            // violation (with the recovered case), flagged as not reproducible in isolation.
            let memory_fault = ["signal_11", "signal_7", "signal_4", "signal_6"].contains(&desc.as_str());
            match (memory_fault, case_line.and_then(|l| serde_json::from_str::<Case>(&l[5..]).ok())) {
                (true, Some(case)) => {
                    let case_for_shape = case.clone();
                    br.viols.push((
                        r,
                        case,
                        Violation {
                            sig: Sig {
                                property: prop.to_string(),
                                family: "process".into(),
                                op: "run".into(),
                                class: format!("died:{desc}:not_reproducible_in_isolation"),
                                shape: cases::death_shape(&case_for_shape),
                            },
                            detail: format!("the worker process died ({desc}) while executing run {r}; the same run completes when executed alone in a fresh process, i.e. the fault depends on heap state left by earlier runs (undefined behaviour in unchecked code)"),
                        },
                    ));
                    br.digests.insert(r, 0xDEAD);
                }
                _ => br.harness_errors.push(format!(
                    "worker died ({desc}) at run {r} of {prop} but the run completes when executed alone"
                )),
            }
            continue;
        }
        use std::os::unix::process::ExitStatusExt;
        let desc2 = if stalled_again {
            format!("stalled_no_progress_within_{}s", run_timeout_s(tier))
        } else {
            match out.status.signal() {
                Some(s) => format!("signal_{s}"),
                None => format!("exit_{}", out.status.code().unwrap_or(-1)),
            }
        };
        match case_line.and_then(|l| serde_json::from_str::<Case>(&l[5..]).ok()) {
            Some(case) => {
                let sig = Sig {
                    property: prop.to_string(),
                    family: "process".into(),
                    op: "run".into(),
                    class: format!("died:{desc2}"),
                    shape: cases::death_shape(&case),
                };
                br.viols.push((
                    r,
                    case,
                    Violation {
                        sig,
                        detail: format!("the process executing run {r} died ({desc2}); confirmed by executing the run alone in a fresh process"),
                    },
                ));
            }
            None => br
                .harness_errors
                .push(format!("worker died ({desc}) at run {r} and the case could not be recovered")),
        }
        br.digests.insert(r, 0xDEAD);
    }
    fps.sort_unstable();
    fps.dedup();
    br.distinct = fps.len() as u64;
    br.evaluations = br.digests.len() as u64;
    let mut d = 0x5EED_u64;
    for (r, x) in &br.digests {
        d = mix(mix(d, *r), *x);
    }
    br.batch_digest = d;
    br
}

pub fn n_workers_pub() -> u64 {
    n_workers()
}

fn n_workers() -> u64 {
    if let Ok(s) = std::env::var("QSIM_WORKERS") {
        if let Ok(n) = s.parse::<u64>() {
            return n.max(1);
        }
    }
    std::thread::available_parallelism().map(|n| n.get() as u64).unwrap_or(4).min(16)
}

/// The build profiles a check runs under: (name, binary, share of the planned runs in percent).
/// `rel` = what users ship (opt-level 2, no debug assertions); `chk` = opt-level 1 with debug assertions and
/// overflow checks. The binaries are built by /verif/check, which exports their paths.
pub fn profiles(prop: &str) -> Vec<(String, PathBuf, u64)> {
    let me = std::env::current_exe().expect("current_exe");
    if prop == "C18" {
        // the schedule engine (shuttle) lives in its own build of the harness
        return match std::env::var("QSIM_BIN_SCHED") {
            Ok(p) => {
                let mut v = vec![("sched".to_string(), PathBuf::from(p), 100)];
                // the sequential-purity part also runs with debug assertions and overflow checks (no shuttle there)
                if let Ok(c) = std::env::var("QSIM_BIN_CHK") {
                    v.push(("chk".to_string(), PathBuf::from(c), 100));
                }
                v
            }
            Err(_) => {
                eprintln!("HARNESS-ERROR: QSIM_BIN_SCHED is not set (run through /verif/check)");
                std::process::exit(2)
            }
        };
    }
    let mut v = vec![("rel".to_string(), std::env::var("QSIM_BIN_REL").map(PathBuf::from).unwrap_or(me), 100)];
    if let Ok(p) = std::env::var("QSIM_BIN_CHK") {
        v.push(("chk".to_string(), PathBuf::from(p), 40));
    }
    v
}

fn exe_of_profile(profile: &str) -> PathBuf {
    if profile == "sched" {
        if let Ok(p) = std::env::var("QSIM_BIN_SCHED") {
            return PathBuf::from(p);
        }
    }
    profiles("")
        .into_iter()
        .find(|(n, _, _)| n == profile)
        .map(|(_, p, _)| p)
        .unwrap_or_else(|| std::env::current_exe().expect("current_exe"))
}

/// Minimises in a child process (so that a crashing candidate cannot take the supervisor down).
fn minimise(exe: &Path, case: &Case, sig: &Sig) -> (Case, bool) {
    let tmp = tmp_dir();
    let tag = format!("{}-{}", std::process::id(), fnv(sig.key().as_bytes()));
    let inp = tmp.join(format!("min-{tag}-in.json"));
    let outp = tmp.join(format!("min-{tag}-out.json"));
    let _ = std::fs::remove_file(&outp);
    let payload = json!({"case": case, "sig": sig});
    if std::fs::write(&inp, serde_json::to_vec(&payload).unwrap()).is_err() {
        return (case.clone(), false);
    }
    let status = Command::new(exe)
        .args(["minimise", inp.to_str().unwrap(), outp.to_str().unwrap()])
        .stdout(Stdio::null())
        .stderr(Stdio::null())
        .spawn()
        .and_then(|mut child| {
            let watch = Watchdog::start(child.id(), 240);
            let st = child.wait();
            watch.finish();
            st
        });
    let result = match status {
        Ok(_) => std::fs::read_to_string(&outp)
            .ok()
            .and_then(|s| serde_json::from_str::<Case>(&s).ok()),
        Err(_) => None,
    };
    let _ = std::fs::remove_file(&inp);
    let _ = std::fs::remove_file(&outp);
    match result {
        Some(c) => (c, true),
        None => (case.clone(), false),
    }
}

/// Executes a case in a child process of the given profile and returns the violations it prints.
fn exec_in_child(exe: &Path, case: &Case) -> Vec<Violation> {
    let tmp = tmp_dir();
    let f = tmp.join(format!("exec-{}-{}.json", std::process::id(), fnv(serde_json::to_string(case).unwrap().as_bytes())));
    if std::fs::write(&f, serde_json::to_vec(case).unwrap()).is_err() {
        return vec![];
    }
    let out = Command::new(exe)
        .args(["exec-case", f.to_str().unwrap()])
        .stdout(Stdio::piped())
        .stderr(Stdio::null())
        .spawn()
        .and_then(|child| {
            // a case that blocks (see the shuttle note in thr.rs) must not block the supervisor
            let watch = Watchdog::start(child.id(), 180);
            let o = child.wait_with_output();
            watch.finish();
            o
        });
    let _ = std::fs::remove_file(&f);
    match out {
        Ok(o) => String::from_utf8_lossy(&o.stdout)
            .lines()
            .filter_map(|l| l.strip_prefix("V ").and_then(|j| serde_json::from_str::<Violation>(j).ok()))
            .collect(),
        Err(_) => vec![],
    }
}

/// One recorded violation of a batch: (profile, run index, case, violation).
pub type Found = (String, u64, Case, Violation);

/// Extra engines of a property (shuttle, Miri, cross-build comparison, ...) report through this.
pub struct Extra {
    pub coverage: serde_json::Map<String, serde_json::Value>,
    pub found: Vec<Found>,
    pub harness_errors: Vec<String>,
    pub evaluations: u64,
}

/// `qsim <prop> quick|thorough`: the registered check.
pub fn check_main(prop: &str, tier: Tier, extra: &dyn Fn(Tier, u64, u64, &BTreeMap<u64, u64>) -> Extra) -> i32 {
    crate::core::install_quiet_panic_hook();
    let seed = seed_from_env();
    let planned = std::env::var("QSIM_RUNS")
        .ok()
        .and_then(|s| s.parse().ok())
        .unwrap_or_else(|| cases::plan_runs(prop, tier));
    println!("qsim check property={prop} tier={} VERIF_SEED={seed} planned_runs={planned}", tier.name());
    // schedule directories left behind by workers that were killed (their process is gone)
    if let Ok(rd) = std::fs::read_dir(tmp_dir()) {
        for e in rd.flatten() {
            let name = e.file_name().to_string_lossy().to_string();
            if let Some(rest) = name.strip_prefix("sched-") {
                let pid = rest.split('-').next().unwrap_or("");
                if !pid.is_empty() && !std::path::Path::new(&format!("/proc/{pid}")).exists() {
                    let _ = std::fs::remove_dir_all(e.path());
                }
            }
        }
    }
    let t0 = Instant::now();
    let mut found: Vec<Found> = vec![];
    let mut harness_errors: Vec<String> = vec![];
    let mut counters: BTreeMap<String, u64> = BTreeMap::new();
    let mut samples = vec![];
    let mut evaluations = 0u64;
    let mut nontrivial = 0u64;
    let mut distinct = 0u64;
    let mut per_profile = serde_json::Map::new();
    let mut digest_all = 0x5EED_u64;
    let mut first_digests: BTreeMap<u64, u64> = BTreeMap::new();
    for (pname, exe, share) in profiles(prop) {
        // the chk profile re-runs a prefix of the same run indices: same cases, other build
        let total = (planned * share / 100).max(1);
        let tp = Instant::now();
        let br = run_batch(&exe, prop, tier, seed, total, n_workers());
        let wall_p = tp.elapsed().as_secs_f64();
        if first_digests.is_empty() {
            first_digests = br.digests.clone();
        }
        for (r, case, v) in br.viols {
            found.push((pname.clone(), r, case, v));
        }
        harness_errors.extend(br.harness_errors.iter().map(|e| format!("[{pname}] {e}")));
        for n in &br.harness_notes {
            println!("note [{pname}]: {n}");
        }
        for (k, v) in br.counters {
            *counters.entry(k).or_insert(0) += v;
        }
        if samples.is_empty() {
            samples = br.samples;
        }
        evaluations += br.evaluations;
        nontrivial += br.nontrivial;
        distinct = distinct.max(br.distinct);
        digest_all = mix(digest_all, br.batch_digest);
        per_profile.insert(
            pname.clone(),
            json!({
                "runs": br.evaluations,
                "distinct_nontrivial": br.distinct,
                "batch_digest": format!("{:016x}", br.batch_digest),
                "wall_s": wall_p,
                "runs_per_hour": (br.evaluations as f64 / wall_p.max(1e-9) * 3600.0) as u64,
            }),
        );
    }
    // ---- regression corpus: explicit cases that once exposed a defect (repaired ones and seeded changes)
    let corpus_dir = PathBuf::from(std::env::var("QSIM_CORPUS_DIR").unwrap_or_else(|_| "/verif/corpus".into())).join(prop);
    let mut corpus_cases = 0u64;
    if let Ok(rd) = std::fs::read_dir(&corpus_dir) {
        let mut files: Vec<PathBuf> = rd.filter_map(|e| e.ok()).map(|e| e.path()).filter(|p| p.extension().map_or(false, |x| x == "json")).collect();
        files.sort();
        for f in files {
            let Ok(text) = std::fs::read_to_string(&f) else { continue };
            let case: Option<Case> = serde_json::from_str::<ReplayFile>(&text)
                .map(|r| r.case)
                .ok()
                .or_else(|| serde_json::from_str::<Case>(&text).ok());
            let Some(case) = case else {
                harness_errors.push(format!("corpus file {} cannot be parsed", f.display()));
                continue;
            };
            corpus_cases += 1;
            for (pname, exe, _) in profiles(prop) {
                for v in exec_in_child(&exe, &case) {
                    found.push((pname.clone(), u64::MAX, case.clone(), v));
                }
                evaluations += 1;
            }
        }
    }
    let ex = extra(tier, seed, planned, &first_digests);
    found.extend(ex.found);
    harness_errors.extend(ex.harness_errors);
    evaluations += ex.evaluations;

    let known = load_known();
    let mut printed_known: BTreeSet<String> = BTreeSet::new();
    let mut unknown: BTreeMap<String, (String, u64, Case, Violation, u64)> = BTreeMap::new();
    let mut known_hits: BTreeMap<String, u64> = BTreeMap::new();
    for (profile, r, case, v) in &found {
        if let Some(f) = match_known(&known, &v.sig) {
            *known_hits.entry(v.sig.key()).or_insert(0) += 1;
            // one line per listed finding (an entry may cover several operations / outcome classes)
            let entry_key = format!("{}/{}/{}/{}/{}", f.property, f.family, f.op, f.class, f.shape);
            if printed_known.insert(entry_key.clone()) {
                println!("KNOWN-FINDING: property={} {} [{}]", f.property, f.what, entry_key);
            }
        } else {
            let e = unknown
                .entry(v.sig.key())
                .or_insert_with(|| (profile.clone(), *r, case.clone(), v.clone(), 0));
            e.4 += 1;
            // keep the smallest case per signature as the starting point of minimisation
            let size = serde_json::to_string(case).map(|s| s.len()).unwrap_or(usize::MAX);
            let cur = serde_json::to_string(&e.2).map(|s| s.len()).unwrap_or(usize::MAX);
            if size < cur {
                *e = (profile.clone(), *r, case.clone(), v.clone(), e.4);
            }
        }
    }
    let replay_dir = verif_dir().join("replays");
    let _ = std::fs::create_dir_all(&replay_dir);
    let mut replay_paths = vec![];
    let max_min = 8; // minimise at most this many distinct signatures per batch
    for (i, (key, (profile, r, case, v, hits))) in unknown.iter().enumerate() {
        let exe = exe_of_profile(profile);
        let (mcase, minimised) = if i < max_min && profile != "external" {
            minimise(&exe, case, &v.sig)
        } else {
            (case.clone(), false)
        };
        let detail = if minimised {
            exec_in_child(&exe, &mcase)
                .into_iter()
                .find(|x| x.sig == v.sig)
                .map(|x| x.detail)
                .unwrap_or_else(|| v.detail.clone())
        } else {
            v.detail.clone()
        };
        let mcase = cases::finalize(&mcase, &detail);
        // does the explicit case reproduce every time? (it does unless a nondeterminism source lies outside the seams)
        let mut attempts = 1u32;
        if profile != "external" && v.sig.family != "process" {
            let hits = (0..4).filter(|_| exec_in_child(&exe, &mcase).iter().any(|x| x.sig == v.sig)).count();
            if hits < 4 {
                attempts = 400;
            }
        }
        let detail = if attempts > 1 {
            format!("{detail} [NOT DETERMINISTIC under fixed simulator choices: the same explicit case fails only sometimes, i.e. the code draws on a source of nondeterminism outside the seams (for instance a new iteration over a randomly seeded hash map)]")
        } else {
            detail
        };
        let rf = ReplayFile {
            property: v.sig.property.clone(),
            signature: v.sig.clone(),
            detail: detail.clone(),
            profile: profile.clone(),
            found_at: json!({"VERIF_SEED": seed, "tier": tier.name(), "run": r, "occurrences_in_batch": hits}),
            minimised,
            attempts,
            case: mcase,
        };
        let path = replay_dir.join(format!("{}-{:016x}.json", v.sig.property, fnv(key.as_bytes())));
        std::fs::write(&path, serde_json::to_string_pretty(&rf).unwrap()).expect("write replay file");
        println!("violation [{profile}] {} ({} occurrences): {}", key, hits, detail);
        println!("VIOLATION property={} replay={}", v.sig.property, path.display());
        replay_paths.push(path.display().to_string());
    }
    for e in &harness_errors {
        eprintln!("HARNESS-ERROR: {e}");
    }

    // ---- evidence
    let wall = t0.elapsed().as_secs_f64();
    let mut fault_kinds = serde_json::Map::new();
    let mut probes = serde_json::Map::new();
    let mut shapes = serde_json::Map::new();
    for (k, v) in &counters {
        if let Some(x) = k.strip_prefix("fault.") {
            fault_kinds.insert(x.to_string(), json!(v));
        } else if let Some(x) = k.strip_prefix("probe.") {
            probes.insert(x.to_string(), json!(v));
        } else {
            shapes.insert(k.clone(), json!(v));
        }
    }
    let mut coverage = serde_json::Map::new();
    coverage.insert("evaluations".into(), json!(evaluations));
    coverage.insert("distinct_nontrivial".into(), json!(distinct));
    coverage.insert("nontrivial_cases".into(), json!(nontrivial));
    coverage.insert("rule".into(), json!(cases::rule(prop)));
    coverage.insert("samples".into(), json!(samples));
    coverage.insert("exhaustive".into(), json!(false));
    coverage.insert("digest".into(), json!(format!("{:016x}", digest_all)));
    coverage.insert("profiles".into(), serde_json::Value::Object(per_profile));
    coverage.insert("runs_per_hour".into(), json!((evaluations as f64 / wall.max(1e-9) * 3600.0) as u64));
    coverage.insert("seeds".into(), json!(format!("VERIF_SEED={seed}; run seed = mix(VERIF_SEED, property, run index), run indices 0..{planned} (profile chk re-runs a prefix of them)")));
    coverage.insert("simulated_time".into(), json!("not applicable: the library has no clock, timer or deadline"));
    coverage.insert("fault_kinds_fired".into(), serde_json::Value::Object(fault_kinds));
    coverage.insert("probes_hit".into(), serde_json::Value::Object(probes));
    coverage.insert("case_statistics".into(), serde_json::Value::Object(shapes));
    coverage.insert("regression_corpus_cases".into(), json!(corpus_cases));
    coverage.insert("known_findings_hit".into(), json!(known_hits));
    coverage.insert("replay_files".into(), json!(replay_paths));
    coverage.insert("harness_errors".into(), json!(harness_errors));
    coverage.insert(
        "real_vs_stub".into(),
        json!({
            "real": "all of qwt (built from the working tree of QWT_SRC with --cfg qwt_verif), minimum_redundancy, bincode, serde, std collections",
            "simulated": crate::cases_stub(prop),
        }),
    );
    for (k, v) in ex.coverage {
        coverage.insert(k, v);
    }
    let evidence = json!({
        "property_id": prop,
        "tier": tier.name(),
        "seed": seed,
        "level": "exploration",
        "coverage": coverage,
        "assumptions": crate::cases_assumptions(prop),
        "wall_s": wall,
        "violations": unknown.len(),
    });
    let ev_dir = verif_dir().join("evidence");
    let _ = std::fs::create_dir_all(&ev_dir);
    let ev_path = ev_dir.join(format!("{prop}.json"));
    std::fs::write(&ev_path, serde_json::to_string_pretty(&evidence).unwrap()).expect("write evidence");
    println!(
        "summary property={prop} runs={} distinct_nontrivial={} violations={} known_findings={} wall_s={:.1} digest={:016x}",
        evaluations,
        distinct,
        unknown.len(),
        printed_known.len(),
        wall,
        digest_all
    );
    if !unknown.is_empty() {
        return 1;
    }
    if !harness_errors.is_empty() {
        return 2;
    }
    0
}

/// Executes a case in-process and reports whether a violation with signature `sig` occurs.
pub fn reproduces(case: &Case, sig: &Sig) -> bool {
    let tries: u32 = std::env::var("QSIM_REPRO_TRIES").ok().and_then(|s| s.parse().ok()).unwrap_or(1);
    for _ in 0..tries.max(1) {
        let out: RunOut = cases::exec(case);
        if out.viols.iter().any(|v| &v.sig == sig) {
            return true;
        }
    }
    false
}
