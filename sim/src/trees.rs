//! C02 / C03: Huffman-shaped quad trees and binary trees against the naive sequence model, under the
//! enumeration orders (H1: frequency map, H2: code-length map) chosen by the simulator.

use std::collections::BTreeMap;

use qwt::verif::{self, Order};
use serde::{Deserialize, Serialize};

use crate::core::{catch, panic_kind, RunOut, Sig, Tier};
use crate::ds::{build_tree, ser_vec, Alias, DynDs, Path, Sym, Ty, A, ALL_PATHS, ALL_TYS, Q, QUAD_HUFF};
use crate::gen::{gen_tree_seq, huffman_max_len, Arrange, Seq, TreeGenCfg};
use crate::prng::{fnv, stream, Digest, Rng};

#[derive(Clone, Debug, PartialEq, Serialize, Deserialize)]
pub enum OrderSpec {
    Real,
    Canonical,
    Reverse,
    Seeded(u64),
    Explicit(Vec<usize>),
}

impl OrderSpec {
    pub fn to_order(&self) -> Order {
        match self {
            OrderSpec::Real => Order::Real,
            OrderSpec::Canonical => Order::Canonical,
            OrderSpec::Reverse => Order::Reverse,
            OrderSpec::Seeded(s) => Order::Seeded(*s),
            OrderSpec::Explicit(v) => Order::Explicit(v.clone()),
        }
    }
}

#[derive(Clone, Debug, PartialEq, Serialize, Deserialize)]
pub struct TreeCase {
    pub property: String,
    pub alias: Alias,
    pub ty: Ty,
    pub path: Path,
    pub seq: Seq,
    /// (H1 order of the frequency map, H2 order of the code-length map) for each construction
    pub orders: Vec<(OrderSpec, OrderSpec)>,
    /// seed of the sampled part of the query sweep
    pub qseed: u64,
    pub profile: String,
}

pub struct Model {
    pub seq: Vec<u128>,
    pub pos: BTreeMap<u128, Vec<usize>>,
}

impl Model {
    pub fn new(seq: Vec<u128>) -> Self {
        let mut pos: BTreeMap<u128, Vec<usize>> = BTreeMap::new();
        for (i, &s) in seq.iter().enumerate() {
            pos.entry(s).or_default().push(i);
        }
        Model { seq, pos }
    }
    pub fn n(&self) -> usize {
        self.seq.len()
    }
    pub fn max(&self) -> Option<u128> {
        self.pos.keys().next_back().copied()
    }
    pub fn count(&self, c: u128) -> usize {
        self.pos.get(&c).map_or(0, |v| v.len())
    }
    pub fn rank(&self, c: u128, i: usize) -> usize {
        self.pos.get(&c).map_or(0, |v| v.partition_point(|&p| p < i))
    }
    pub fn select(&self, c: u128, k: usize) -> Option<usize> {
        self.pos.get(&c).and_then(|v| v.get(k).copied())
    }
}

fn property_of(alias: Alias) -> &'static str {
    if alias.is_quad() {
        "C02"
    } else {
        "C03"
    }
}

pub fn gen_case(prop: &str, run_seed: u64, tier: Tier) -> TreeCase {
    let mut rng = stream(run_seed, "workload");
    let alias = if prop == "C02" {
        *rng.pick(&QUAD_HUFF)
    } else if rng.chance(2, 3) {
        Alias::HWT
    } else {
        Alias::WT
    };
    let ty = *rng.pick(&ALL_TYS);
    let path = *rng.pick(&ALL_PATHS);
    let cfg = TreeGenCfg {
        degree: if alias.is_quad() { 4 } else { 2 },
        table_indexed: alias.is_huffman(),
        ty,
        tier,
    };
    let (seq, profile) = gen_tree_seq(&mut rng, &cfg);
    let mut ties = stream(run_seed, "ties");
    let k = match tier {
        Tier::Quick => 4,
        Tier::Thorough => 12,
    };
    let orders = if alias.is_huffman() {
        let mut v = vec![
            (OrderSpec::Canonical, OrderSpec::Canonical),
            (OrderSpec::Reverse, OrderSpec::Reverse),
        ];
        while v.len() < k {
            v.push((OrderSpec::Seeded(ties.next_u64()), OrderSpec::Seeded(ties.next_u64())));
        }
        // one construction with no intervention: whatever order the real, randomly keyed hash maps produce
        // (kept out of digests and fingerprints, which must not depend on it)
        v.push((OrderSpec::Real, OrderSpec::Real));
        v
    } else {
        vec![(OrderSpec::Canonical, OrderSpec::Canonical)]
    };
    TreeCase {
        property: prop.to_string(),
        alias,
        ty,
        path,
        seq,
        orders,
        qseed: stream(run_seed, "queries").next_u64(),
        profile,
    }
}

/// Large inputs (see `gen_big_tree_seq`); fewer constructions per case, they are expensive.
pub fn gen_big_case(prop: &str, run_seed: u64, tier: Tier) -> TreeCase {
    let mut c = gen_case(prop, run_seed, tier);
    let mut rng = stream(run_seed, "big");
    let cfg = TreeGenCfg {
        degree: if c.alias.is_quad() { 4 } else { 2 },
        table_indexed: c.alias.is_huffman(),
        ty: c.ty,
        tier,
    };
    let (seq, profile) = crate::gen::gen_big_tree_seq(&mut rng, &cfg);
    c.seq = seq;
    c.profile = profile;
    if c.orders.len() > 3 {
        // canonical, one seeded, the real hasher
        c.orders = vec![c.orders[0].clone(), c.orders[2].clone(), c.orders[c.orders.len() - 1].clone()];
    }
    c
}

/// Inputs of 2^20 symbols and more (size-dependent construction paths: pre-sizing, single-pass counting, ...),
/// half of them through `collect()`, a third with a first symbol that occurs nowhere else.
pub fn gen_huge_case(prop: &str, run_seed: u64, tier: Tier) -> TreeCase {
    let mut c = gen_case(prop, run_seed, tier);
    let mut rng = stream(run_seed, "huge");
    let n = *rng.pick(&[(1usize << 20) - 1, 1 << 20, (1 << 20) + 1, (1 << 20) + 4099, 1_300_000]);
    let ty_cap = c.ty.max().min(if c.alias.is_huffman() { 1 << 17 } else { u128::MAX });
    let d_cap = (ty_cap.min(1 << 16) as usize) + 1;
    let (mut counts, profile, arrange): (Vec<u64>, &str, Arrange) = match rng.below(3) {
        0 => {
            // the first symbol occurs once, at position 0
            let d = rng.urange(3, 40).min(d_cap);
            let mut v = vec![1u64];
            let rest = (n as u64 - 1) / (d as u64 - 1);
            v.extend((1..d).map(|_| rest.max(1)));
            (v, "huge_first_symbol_unique", *rng.pick(&[Arrange::SortedRuns, Arrange::Periodic, Arrange::SortedRuns]))
        }
        1 => {
            let d = (*rng.pick(&[2usize, 4, 5, 16, 17, 200, 256, 257])).min(d_cap);
            (vec![(n / d).max(1) as u64; d], "huge_uniform", *rng.pick(&[Arrange::Shuffled, Arrange::Periodic, Arrange::RandomRuns]))
        }
        _ => {
            let d = rng.urange(2, 300).min(d_cap);
            let mut v: Vec<u64> = (1..d).map(|_| 1 + rng.below(40)).collect();
            let s: u64 = v.iter().sum();
            v.push((n as u64).saturating_sub(s).max(1));
            (v, "huge_heavy", *rng.pick(&[Arrange::Shuffled, Arrange::SortedRuns, Arrange::RandomRuns]))
        }
    };
    let d = counts.len();
    let step = (ty_cap / d as u128).max(1);
    let mut vals: Vec<u128> = match rng.below(3) {
        0 => (0..d as u128).collect(),
        1 => (0..d as u128).map(|k| ty_cap - k.min(ty_cap)).collect(),
        _ => (0..d as u128).map(|k| (k * step).min(ty_cap)).collect(),
    };
    vals.dedup();
    counts.truncate(vals.len());
    c.seq = Seq::Weights {
        syms: vals.into_iter().map(Sym).collect(),
        counts,
        arrange,
        seed: rng.next_u64(),
    };
    c.profile = profile.to_string();
    if rng.bool() {
        c.path = Path::Collect;
    }
    if c.orders.len() > 2 {
        // canonical and one seeded order
        c.orders = vec![c.orders[0].clone(), c.orders[2].clone()];
    }
    c
}

/// Small alphabets with every enumeration order: d <= 4 both maps exhaustively, d = 5, 6 the length map
/// exhaustively under a few frequency-map orders.
pub fn gen_exhaustive_case(prop: &str, run_seed: u64) -> TreeCase {
    let mut rng = stream(run_seed, "workload");
    let alias = if prop == "C02" { *rng.pick(&QUAD_HUFF) } else { Alias::HWT };
    let ty = *rng.pick(&ALL_TYS);
    let d = rng.urange(2, 6);
    let counts: Vec<u64> = match rng.below(4) {
        0 => vec![rng.range(1, 40); d],
        1 => (0..d).map(|_| rng.range(1, 3)).collect(),
        2 => (0..d).map(|k| 1 + (k as u64 / 2) * rng.range(1, 5)).collect(),
        _ => (0..d).map(|_| rng.range(1, 60)).collect(),
    };
    let mut syms: Vec<u128> = (0..d as u128).map(|k| k * rng.range(1, 9) as u128 + rng.below(3) as u128).collect();
    syms.sort();
    syms.dedup();
    while syms.len() < d {
        let next = syms.last().unwrap() + 1;
        syms.push(next);
    }
    rng.shuffle(&mut syms);
    let perms = |items: &[usize]| -> Vec<Vec<usize>> {
        let mut out = vec![];
        let mut a = items.to_vec();
        a.sort();
        fn rec(a: &mut Vec<usize>, k: usize, out: &mut Vec<Vec<usize>>) {
            if k == a.len() {
                out.push(a.clone());
                return;
            }
            for i in k..a.len() {
                a.swap(k, i);
                rec(a, k + 1, out);
                a.swap(k, i);
            }
        }
        rec(&mut a, 0, &mut out);
        out
    };
    let usyms: Vec<usize> = syms.iter().map(|&s| s as usize).collect();
    let all = perms(&usyms);
    let mut orders = vec![];
    if d <= 4 {
        for p1 in &all {
            for p2 in &all {
                orders.push((OrderSpec::Explicit(p1.clone()), OrderSpec::Explicit(p2.clone())));
            }
        }
    } else {
        let mut h1 = vec![OrderSpec::Canonical, OrderSpec::Reverse];
        h1.push(OrderSpec::Seeded(rng.next_u64()));
        for o1 in h1 {
            for p2 in &all {
                orders.push((o1.clone(), OrderSpec::Explicit(p2.clone())));
            }
        }
    }
    TreeCase {
        property: prop.to_string(),
        alias,
        ty,
        path: *rng.pick(&ALL_PATHS),
        seq: Seq::Weights {
            syms: syms.into_iter().map(Sym).collect(),
            counts,
            arrange: crate::gen::Arrange::Shuffled,
            seed: rng.next_u64(),
        },
        orders,
        qseed: stream(run_seed, "queries").next_u64(),
        profile: "exhaustive_orders".into(),
    }
}

/// Frequency profiles forcing the deepest codes (thorough tier only; millions of symbols).
pub fn gen_deep_case(prop: &str, run_seed: u64, levels: usize) -> TreeCase {
    let mut rng = stream(run_seed, "workload");
    let (alias, degree) = if prop == "C02" { (*rng.pick(&QUAD_HUFF), 4) } else { (Alias::HWT, 2) };
    let counts = crate::gen::deep_counts(degree, levels);
    let d = counts.len();
    let mut syms: Vec<u128> = (0..d as u128).collect();
    rng.shuffle(&mut syms);
    TreeCase {
        property: prop.to_string(),
        alias,
        ty: *rng.pick(&[Ty::U8, Ty::U16, Ty::U32, Ty::U64, Ty::Usize, Ty::U128]),
        path: *rng.pick(&ALL_PATHS),
        seq: Seq::Weights {
            syms: syms.into_iter().map(Sym).collect(),
            counts,
            arrange: *rng.pick(&[crate::gen::Arrange::Shuffled, crate::gen::Arrange::Periodic]),
            seed: rng.next_u64(),
        },
        orders: vec![
            (OrderSpec::Canonical, OrderSpec::Canonical),
            (OrderSpec::Seeded(rng.next_u64()), OrderSpec::Seeded(rng.next_u64())),
        ],
        qseed: stream(run_seed, "queries").next_u64(),
        profile: format!("deepest_{levels}"),
    }
}

/// Expected answer of `rank(c, i)` as the statement gives it for this family.
fn expect_rank(alias: Alias, m: &Model, c: u128, i: usize) -> Option<usize> {
    let n = m.n();
    if n == 0 || i > n {
        return None;
    }
    let occurs = m.count(c) > 0;
    if alias.is_huffman() {
        if occurs {
            Some(m.rank(c, i))
        } else {
            None
        }
    } else if c <= m.max().unwrap() {
        Some(m.rank(c, i))
    } else {
        None
    }
}

fn expect_select(_alias: Alias, m: &Model, c: u128, k: usize) -> Option<usize> {
    m.select(c, k)
}

struct Sweep<'a> {
    case: &'a TreeCase,
    m: &'a Model,
    out: &'a mut RunOut,
    digest: &'a mut Digest,
    deep: bool,
    which: usize,
}

impl Sweep<'_> {
    fn shape(&self, op: &str, c: Option<u128>, i: Option<usize>) -> String {
        let n = self.m.n();
        if n == 0 {
            return "empty_sequence".into();
        }
        if self.deep {
            return "code_longer_than_32_bits".into();
        }
        let max = self.m.max().unwrap();
        if let Some(c) = c {
            if c > usize::MAX as u128 {
                return "query_symbol_does_not_fit_usize".into();
            }
        }
        if !self.case.alias.is_huffman() && max > u32::MAX as u128 {
            return "symbols_need_more_than_32_bits".into();
        }
        if let Some(c) = c {
            if c > u32::MAX as u128 && !self.case.alias.is_huffman() {
                return "query_symbol_needs_more_than_32_bits".into();
            }
        }
        if self.m.pos.len() == 1 && op == "build" {
            return "single_distinct_symbol".into();
        }
        if let Some(c) = c {
            if c > max {
                return "query_symbol_above_max".into();
            }
        }
        if let (Some(i), true) = (i, op == "select") {
            if i > usize::MAX - n.max(1) * 2 {
                return "occurrence_index_near_usize_max".into();
            }
        }
        if let (Some(i), true) = (i, op == "rank" || op == "rank_prefetch" || op == "get") {
            if i > n {
                return "position_past_end".into();
            }
        }
        if let Some(c) = c {
            if self.m.count(c) == 0 {
                return "query_symbol_absent".into();
            }
        }
        if self.m.pos.len() == 1 {
            return "single_distinct_symbol".into();
        }
        "general".into()
    }

    fn sig(&self, op: &str, class: &str, c: Option<u128>, i: Option<usize>) -> Sig {
        Sig {
            property: self.case.property.clone(),
            family: self.case.alias.family().to_string(),
            op: op.to_string(),
            class: class.to_string(),
            shape: self.shape(op, c, i),
        }
    }

    fn check(&mut self, t: &dyn DynDs, op: &str, q: Q, expect: A, c: Option<u128>, i: Option<usize>) {
        let got = match catch(|| t.answer(&q)) {
            Ok(a) => a,
            Err(msg) => A::Panic(msg),
        };
        got.digest(self.digest);
        if got == expect {
            return;
        }
        let class = match (&got, &expect) {
            (A::Panic(m), _) => panic_kind(m).to_string(),
            (A::None, _) => "none_for_some".to_string(),
            (_, A::None) => "some_for_none".to_string(),
            _ => "wrong_value".to_string(),
        };
        let sig = self.sig(op, &class, c, i);
        let detail = format!(
            "{} over n={} (construction #{} of the case): {:?} returned {:?}, the sequence gives {:?}",
            t.kind(),
            self.m.n(),
            self.which,
            q,
            got,
            expect
        );
        self.out.violate(sig, detail);
    }
}

fn opt_u(x: Option<usize>) -> A {
    match x {
        None => A::None,
        Some(v) => A::U(Sym(v as u128)),
    }
}

/// The full query sweep of DESIGN §3 C02 against one built tree.
fn sweep(case: &TreeCase, m: &Model, t: &dyn DynDs, which: usize, deep: bool, out: &mut RunOut, digest: &mut Digest) {
    let n = m.n();
    let alias = case.alias;
    let ty_max = case.ty.max();
    let mut rng = Rng::new(case.qseed); // same queries for every construction of the case
    let mut sw = Sweep {
        case,
        m,
        out,
        digest,
        deep,
        which,
    };
    sw.check(t, "len", Q::Len, A::U(Sym(n as u128)), None, None);
    sw.check(t, "is_empty", Q::IsEmpty, A::B(n == 0), None, None);

    // ---- positions
    let mut positions: Vec<usize> = if n <= 2048 {
        (0..n).collect()
    } else {
        let mut v: Vec<usize> = (0..256).map(|_| rng.usize_below(n)).collect();
        for b in [256usize, 512, 2048, 4096, 8192] {
            let mut x = b;
            while x <= n + 1 {
                for p in [x - 1, x, x + 1] {
                    if p < n {
                        v.push(p);
                    }
                }
                x += b * (1 + n / (b * 8));
            }
        }
        v.extend([0, n - 1, n / 2]);
        v
    };
    positions.sort();
    positions.dedup();
    for &i in &positions {
        sw.check(t, "get", Q::Get(i), A::U(Sym(m.seq[i])), Some(m.seq[i]), Some(i));
    }
    for i in [n, n.wrapping_add(1), usize::MAX, 1usize << 63, (1usize << 63) + n / 2, usize::MAX / 2 + 1 + n.saturating_sub(1)] {
        sw.check(t, "get", Q::Get(i), A::None, None, Some(i));
    }

    // ---- symbols
    let occurring: Vec<u128> = m.pos.keys().copied().collect();
    let mut syms: Vec<u128> = if occurring.len() <= 64 {
        occurring.clone()
    } else {
        let mut v: Vec<u128> = (0..62).map(|_| *rng.pick(&occurring)).collect();
        v.push(occurring[0]);
        v.push(*occurring.last().unwrap());
        v
    };
    let max = m.max().unwrap_or(0);
    let mut absent: Vec<u128> = vec![];
    // absent inside the range
    if n > 0 {
        let mut tries = 0;
        while absent.len() < 4 && tries < 40 {
            tries += 1;
            let c = if max == u128::MAX { rng.next_u128() } else { rng.next_u128() % (max + 1) };
            if m.count(c) == 0 {
                absent.push(c);
            }
        }
        for c in occurring.iter().take(8) {
            for d in [c.wrapping_sub(1), c.wrapping_add(1)] {
                if d <= max && m.count(d) == 0 {
                    absent.push(d);
                }
            }
        }
    }
    if n == 0 {
        // on the empty sequence every symbol is absent, 0 included
        absent.extend([0u128, 1, 2, 3]);
    }
    // above the maximum, up to the type maximum, and across the 32/64-bit boundaries
    let mut above: Vec<u128> = vec![max.saturating_add(1), max.saturating_add(2), ty_max, ty_max - 1];
    for b in [8u32, 16, 20, 32, 64] {
        if (case.ty.bits() as u32) > b {
            let base = 1u128 << b;
            above.extend([base, base + 1, base.saturating_add(max), base | occurring.first().copied().unwrap_or(0)]);
            if let Some(&c) = occurring.last() {
                above.push(base.wrapping_add(c));
            }
        }
    }
    for c in above {
        if c <= ty_max && m.count(c) == 0 {
            absent.push(c);
        }
    }
    absent.sort();
    absent.dedup();
    syms.sort();
    syms.dedup();

    // ---- positions for rank
    let mut ranks: Vec<usize> = vec![0, 1, n / 2, n.saturating_sub(1), n];
    for _ in 0..4 {
        ranks.push(rng.usize_below(n + 1));
    }
    for b in [256usize, 512, 2048] {
        if n >= b {
            let x = b * (1 + rng.usize_below(n / b));
            ranks.extend([x - 1, x.min(n), (x + 1).min(n)]);
        }
    }
    ranks.retain(|&i| i <= n);
    ranks.sort();
    ranks.dedup();
    let past = [n.wrapping_add(1), usize::MAX, (1usize << 63) + n / 2];
    let has_pf = alias.is_quad();

    // all rank / rank_prefetch / select checks, executed in a shuffled order: the model does not care about the
    // order, and an answer that depends on the previous query (a memo keyed too coarsely, a scratch buffer that
    // is not cleared on some exit) only shows when unrelated queries follow each other
    enum Ck {
        Rank(u128, usize),
        RankPf(u128, usize),
        Select(u128, usize),
    }
    let mut checks: Vec<Ck> = vec![];
    for &c in syms.iter().chain(absent.iter()) {
        for &i in ranks.iter().chain(past.iter()) {
            checks.push(Ck::Rank(c, i));
            if has_pf {
                checks.push(Ck::RankPf(c, i));
            }
        }
        let cnt = m.count(c);
        let mut ks = vec![0usize, cnt / 2, cnt.saturating_sub(1), cnt, cnt + 1, usize::MAX];
        if cnt > 2 {
            ks.push(rng.usize_below(cnt));
        }
        ks.sort();
        ks.dedup();
        for k in ks {
            checks.push(Ck::Select(c, k));
        }
    }
    rng.shuffle(&mut checks);
    for ck in checks {
        match ck {
            Ck::Rank(c, i) => {
                let e = opt_u(expect_rank(alias, m, c, i));
                sw.check(t, "rank", Q::Rank(Sym(c), i), e, Some(c), Some(i));
            }
            Ck::RankPf(c, i) => {
                let e = opt_u(expect_rank(alias, m, c, i));
                sw.check(t, "rank_prefetch", Q::RankPf(Sym(c), i), e, Some(c), Some(i));
            }
            Ck::Select(c, k) => {
                let e = opt_u(expect_select(alias, m, c, k));
                sw.check(t, "select", Q::Select(Sym(c), k), e, Some(c), Some(k));
            }
        }
    }
}

/// Input-only shape of a tree case (used when the process died before any oracle ran).
pub fn input_shape(case: &TreeCase) -> String {
    let seq = case.seq.expand();
    if seq.is_empty() {
        return "empty_sequence".into();
    }
    let m = Model::new(seq);
    let degree = if case.alias.is_quad() { 4 } else { 2 };
    let counts: Vec<u64> = m.pos.values().map(|v| v.len() as u64).collect();
    let frag_bits = if degree == 4 { 2 } else { 1 };
    if case.alias.is_huffman() && huffman_max_len(&counts, degree) * frag_bits > 32 {
        return "code_longer_than_32_bits".into();
    }
    if m.pos.len() == 1 {
        return "single_distinct_symbol".into();
    }
    "general".into()
}

pub fn exec(case: &TreeCase) -> RunOut {
    let mut out = RunOut::default();
    let mut digest = Digest::default();
    let seq = case.seq.expand();
    let m = Model::new(seq);
    let degree = if case.alias.is_quad() { 4 } else { 2 };
    let counts: Vec<u64> = m.pos.values().map(|v| v.len() as u64).collect();
    let own_depth = huffman_max_len(&counts, degree);
    let frag_bits = if degree == 4 { 2 } else { 1 };
    out.nontrivial = m.pos.len() >= 2;
    out.count("cases", 1);
    out.count(&format!("profile.{}", case.profile.split('_').next().unwrap_or("x")), 1);
    out.count(&format!("alias.{:?}", case.alias), 1);
    out.count(&format!("ty.{:?}", case.ty), 1);
    // tie classes: symbols with equal frequency
    let mut by_count: BTreeMap<u64, usize> = BTreeMap::new();
    for &c in &counts {
        *by_count.entry(c).or_default() += 1;
    }
    let biggest_tie = by_count.values().copied().max().unwrap_or(0);
    if by_count.values().filter(|&&k| k >= 2).count() >= 2 {
        out.count("shape.two_or_more_tie_classes", 1);
    }
    if biggest_tie >= 4 {
        out.count("shape.tie_class_of_4_or_more", 1);
    }
    if m.pos.len() > 1 && (m.pos.len() - 1) % (degree - 1) != 0 {
        out.count("shape.incomplete_code", 1);
    }
    for (which, (o1, o2)) in case.orders.iter().enumerate() {
        verif::set_orders(o1.to_order(), o2.to_order());
        if case.alias.is_huffman() {
            for (which_map, o) in [("frequency_map", o1), ("length_map", o2)] {
                let kind = match o {
                    OrderSpec::Real => "real",
                    OrderSpec::Canonical => "canonical",
                    OrderSpec::Reverse => "reverse",
                    OrderSpec::Seeded(_) => "seeded_permutation",
                    OrderSpec::Explicit(_) => "explicit_permutation",
                };
                out.count(&format!("fault.enumeration_order_{which_map}_{kind}"), 1);
            }
        }
        let built = catch(|| build_tree(case.alias, case.ty, case.path, &m.seq));
        let deep_by_own = case.alias.is_huffman() && own_depth * frag_bits > 32;
        let t = match built {
            Ok(t) => t,
            Err(msg) => {
                let sw = Sweep {
                    case,
                    m: &m,
                    out: &mut RunOut::default(),
                    digest: &mut Digest::default(),
                    deep: deep_by_own,
                    which,
                };
                let sig = sw.sig("build", panic_kind(&msg), None, None);
                let (l1, l2) = verif::last_orders();
                out.violate(
                    sig,
                    format!(
                        "construction #{which} of {:?}<{:?}> via {:?} over n={} with {} distinct symbols panicked: {msg}; applied orders H1={:?} H2={:?}",
                        case.alias,
                        case.ty,
                        case.path,
                        m.n(),
                        m.pos.len(),
                        l1.iter().take(12).collect::<Vec<_>>(),
                        l2.iter().take(12).collect::<Vec<_>>()
                    ),
                );
                if !(*o1 == OrderSpec::Real || *o2 == OrderSpec::Real) {
                    digest.str("build-panic");
                }
                continue;
            }
        };
        out.count("trees_built", 1);
        let levels = match t.answer(&Q::NLevels) {
            A::U(Sym(l)) => l as usize,
            _ => 0,
        };
        let deep = case.alias.is_huffman() && (levels * frag_bits > 32 || deep_by_own);
        if case.alias.is_huffman() {
            if levels * frag_bits >= 18 {
                out.count("shape.code_of_18_bits_or_more", 1);
            }
            if levels * frag_bits > 32 {
                out.count("shape.code_longer_than_32_bits", 1);
            }
        }
        let mut d = Digest::default();
        sweep(case, &m, t.as_ref(), which, deep, &mut out, &mut d);
        let real = *o1 == OrderSpec::Real || *o2 == OrderSpec::Real;
        if real {
            out.count("trees_built_under_the_real_hasher", 1);
            continue;
        }
        digest.u64(d.0);
        if let Ok(bytes) = ser_vec(t.as_ref(), 0) {
            out.fps.push(fnv(&bytes));
        }
        // a clone answers like the original (first construction of every 4th case)
        if which == 0 && case.qseed % 4 == 0 {
            if let Ok(c) = catch(|| t.clone_box()) {
                let mut d2 = Digest::default();
                sweep(case, &m, c.as_ref(), which, deep, &mut out, &mut d2);
                out.count("clones_swept", 1);
            }
        }
        // so does an existing tree of the same type (built from other content) after clone_from
        if which == 0 && case.qseed % 4 == 1 {
            let small: Vec<u128> = m.seq.iter().rev().take(41).copied().collect();
            if let Ok(mut dst) = catch(|| build_tree(case.alias, case.ty, Path::FromVec, &small)) {
                if let Ok(true) = catch(|| dst.clone_from_dyn(t.as_ref())) {
                    let mut d2 = Digest::default();
                    sweep(case, &m, dst.as_ref(), which, deep, &mut out, &mut d2);
                    out.count("clone_from_swept", 1);
                }
            }
        }
    }
    // the default-constructed tree represents the empty sequence: every query answers None
    if m.n() == 0 {
        if let Ok(t) = catch(|| crate::ds::default_tree(case.alias, case.ty)) {
            let mut d2 = Digest::default();
            sweep(case, &m, t.as_ref(), 99, false, &mut out, &mut d2);
            digest.u64(d2.0);
            out.count("default_trees_swept", 1);
        }
    }
    verif::set_orders(Order::Canonical, Order::Canonical);
    let probes = verif::take_probes();
    for (i, &p) in probes.iter().enumerate() {
        out.count(&format!("probe.{}", verif::PROBE_NAMES[i]), p);
    }
    out.digest = digest.0;
    out
}

/// Rewrites seeded orders into the explicit symbol lists they produce for this case's sequence
/// (so that a replay file does not depend on a PRNG position).
pub fn explicit_orders(case: &TreeCase) -> TreeCase {
    let mut c = case.clone();
    let seq = case.seq.expand();
    let mut syms: Vec<usize> = seq.iter().map(|&s| s as usize).collect();
    syms.sort();
    syms.dedup();
    for (o1, o2) in c.orders.iter_mut() {
        for o in [o1, o2] {
            if let OrderSpec::Seeded(s) = o {
                let mut v = syms.clone();
                let mut rng_state = *s;
                // same Fisher-Yates as qwt::verif (splitmix64 driven)
                for i in (1..v.len()).rev() {
                    let j = (crate::prng::splitmix64(&mut rng_state) % (i as u64 + 1)) as usize;
                    v.swap(i, j);
                }
                *o = OrderSpec::Explicit(v);
            }
        }
    }
    c
}
