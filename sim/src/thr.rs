//! C18: queries are pure and structures can be shared across threads.
//!  1. Send + Sync: compile-time (ds::assert_send_sync_all; DynDs: Send + Sync).
//!  2. sequential purity: bytes before == bytes after any query batch; repeating / reordering queries gives the same answers.
//!  3. schedules: simulated threads (shuttle) query one shared value under seeded random / PCT schedules, with
//!     scheduling points between queries and at the H4 points inside them; every answer must equal the
//!     single-thread answer.

use serde::{Deserialize, Serialize};

use crate::core::{catch, RunOut, Sig, Tier};
use crate::ds::{ser_vec, DynDs, A, Q};
use crate::prng::{fnv, stream, Digest, Rng};
use crate::spec::{gen_queries, gen_spec, Spec};

#[derive(Clone, Debug, PartialEq, Serialize, Deserialize)]
pub enum SchedKind {
    Random,
    Pct(usize),
}

#[derive(Clone, Debug, PartialEq, Serialize, Deserialize)]
pub struct ThrCase {
    pub spec: Spec,
    pub qseed: u64,
    pub n_queries: usize,
    pub threads: usize,
    pub sched: SchedKind,
    pub sched_seed: u64,
    pub iterations: usize,
    /// when set, exactly this recorded schedule is executed instead of `iterations` seeded ones
    pub replay_schedule: Option<String>,
    /// every `rank` of the batch is issued as `rank_prefetch` (scenarios on `*Pfs` trees with non-trivial samples)
    #[serde(default)]
    pub prefetch_heavy: bool,
}

pub fn gen_case(run_seed: u64, tier: Tier) -> ThrCase {
    let mut rng = stream(run_seed, "workload");
    let mut srng = stream(run_seed, "schedule");
    // keep structures small: the subject is interleaving, not size
    let mut spec = gen_spec(&mut rng, Tier::Thorough);
    // (bit and quad structures may be long: their sampled search paths only exist beyond a few superblocks)
    for _ in 0..8 {
        let small_enough = match &spec {
            Spec::Tree { .. } => spec.n() <= 3000,
            _ => spec.n() <= 40000,
        };
        if small_enough {
            break;
        }
        spec = gen_spec(&mut rng, Tier::Thorough);
    }
    // one scenario in ten: a tree with prefetch support whose samples are non-trivial (some 2-bit digit occurs more
    // than 2048 times on a level, three or more levels), queried mostly through rank_prefetch
    let prefetch_heavy = rng.chance(1, 10);
    if prefetch_heavy {
        use crate::ds::{Alias, Sym, ALL_TYS};
        use crate::gen::{Arrange, Seq};
        let alias = *rng.pick(&[Alias::QWT256Pfs, Alias::QWT512Pfs, Alias::HQWT256Pfs, Alias::HQWT512Pfs]);
        let ty = *rng.pick(&ALL_TYS);
        let k = rng.urange(2, 5);
        let top = *rng.pick(&[63u128, 255, 255, 200, 1023]);
        let top = top.min(crate::ds::Ty::max(ty));
        let mut syms: Vec<Sym> = vec![];
        while syms.len() < k {
            let c = Sym(rng.next_u128() % top);
            if !syms.contains(&c) {
                syms.push(c);
            }
        }
        let mut counts: Vec<u64> = (0..k).map(|_| rng.range(1500, 7000)).collect();
        syms.push(Sym(top));
        counts.push(rng.range(1, 3));
        spec = Spec::Tree {
            alias,
            ty,
            path: *rng.pick(&crate::ds::ALL_PATHS),
            seq: Seq::Weights {
                syms,
                counts,
                arrange: *rng.pick(&[Arrange::SortedRuns, Arrange::SortedRuns, Arrange::RandomRuns, Arrange::Shuffled]),
                seed: rng.next_u64(),
            },
            orders: (rng.next_u64(), rng.next_u64()),
        };
    }
    ThrCase {
        prefetch_heavy,
        spec,
        qseed: stream(run_seed, "queries").next_u64(),
        n_queries: rng.urange(30, 90),
        threads: rng.urange(2, 4),
        sched: if srng.bool() { SchedKind::Random } else { SchedKind::Pct(srng.urange(2, 4)) },
        sched_seed: srng.next_u64(),
        iterations: match tier {
            Tier::Quick => 120,
            Tier::Thorough => 1500,
        },
        replay_schedule: None,
    }
}

/// A purity-only scenario (no concurrent phase): larger structures, more queries, queries aimed at the places where
/// the data makes a search path long (run boundaries, first / last occurrence). Cheap, so there are many of them.
pub fn gen_seq_case(run_seed: u64, tier: Tier) -> ThrCase {
    let mut rng = stream(run_seed, "workload");
    let spec = match rng.below(15) {
        0 => crate::spec::gen_big_spec_pub(&mut rng, tier),
        1 => Spec::Bits {
            kind: *rng.pick(&[crate::ds::Flat::RSWide, crate::ds::Flat::RSWide, crate::ds::Flat::RSNarrow, crate::ds::Flat::DArray, crate::ds::Flat::DArray0]),
            bits: crate::spec::gen_long_run_bits(&mut rng),
        },
        2 => Spec::Bits {
            kind: *rng.pick(&[crate::ds::Flat::DArray, crate::ds::Flat::DArray0, crate::ds::Flat::DArray, crate::ds::Flat::RSNarrow, crate::ds::Flat::RSWide]),
            bits: crate::spec::gen_inventory_shaped_bits(&mut rng),
        },
        _ => gen_spec(&mut rng, Tier::Thorough),
    };
    ThrCase {
        prefetch_heavy: false,
        spec,
        qseed: stream(run_seed, "queries").next_u64(),
        n_queries: rng.urange(120, 400),
        threads: 2,
        sched: SchedKind::Random,
        sched_seed: 0,
        iterations: 0,
        replay_schedule: None,
    }
}

fn sig(family: &str, op: &str, class: &str, shape: &str) -> Sig {
    Sig {
        property: "C18".into(),
        family: family.into(),
        op: op.into(),
        class: class.into(),
        shape: shape.into(),
    }
}

fn family_of(spec: &Spec) -> String {
    match spec {
        Spec::Tree { alias, .. } | Spec::TreeDefault { alias, .. } => alias.family().to_string(),
        Spec::Bits { kind, .. } | Spec::Quads { kind, .. } | Spec::FlatDefault { kind } => format!("{kind:?}"),
    }
}

/// Same type and alphabet, different content and different symbol frequencies: the sequence reversed, followed
/// by a copy of its first third (a value whose node boundaries / code table differ from the first one's).
pub fn reversed_spec(spec: &Spec) -> Option<Spec> {
    fn grow<T: Clone>(v: &[T]) -> Vec<T> {
        let mut w: Vec<T> = v.iter().rev().cloned().collect();
        w.extend_from_slice(&v[..v.len() / 3 + 1]);
        w
    }
    match spec {
        Spec::Tree { alias, ty, path, seq, orders } => {
            let v = seq.expand();
            if v.len() < 2 {
                return None;
            }
            Some(Spec::Tree {
                alias: *alias,
                ty: *ty,
                path: *path,
                seq: crate::gen::Seq::Explicit(grow(&v).into_iter().map(crate::ds::Sym).collect()),
                orders: *orders,
            })
        }
        Spec::Bits { kind, bits } if bits.len() >= 2 => Some(Spec::Bits {
            kind: *kind,
            bits: grow(&bits.chars().collect::<Vec<char>>()).into_iter().collect(),
        }),
        Spec::Quads { kind, syms } if syms.len() >= 2 => Some(Spec::Quads {
            kind: *kind,
            syms: grow(syms),
        }),
        _ => None,
    }
}

fn op_name(q: &Q) -> String {
    format!("{q:?}").split('(').next().unwrap().to_lowercase()
}

/// The value under test, however it came to be: as built (2 of 5), reloaded from its serialized form, a clone, or
/// an existing value of the same type (other content) overwritten by `clone_from`. Falls back to the built value
/// when a step is unavailable (those steps are C11's / C19's subject, not C18's).
fn incarnate(spec: &Spec, life: u64) -> (Box<dyn DynDs>, &'static str) {
    let x = spec.build();
    match life {
        2 => {
            let r = catch(|| {
                let bytes = ser_vec(x.as_ref(), 0)?;
                x.de_from(0, &mut &bytes[..])
            });
            match r {
                Ok(Ok(y)) => (y, "reloaded"),
                _ => (x, "built"),
            }
        }
        3 => match catch(|| x.clone_box()) {
            Ok(y) => (y, "clone"),
            Err(_) => (x, "built"),
        },
        4 => {
            let r = catch(|| {
                let mut dst = reversed_spec(spec)?.build();
                if dst.clone_from_dyn(x.as_ref()) {
                    Some(dst)
                } else {
                    None
                }
            });
            match r {
                Ok(Some(y)) => (y, "clone_from"),
                _ => (x, "built"),
            }
        }
        _ => (x, "built"),
    }
}

pub fn exec(case: &ThrCase) -> RunOut {
    let mut out = RunOut::default();
    let mut digest = Digest::default();
    let fam = family_of(&case.spec);
    let life = (case.qseed >> 9) % 5;
    let x = match catch(|| incarnate(&case.spec, life)) {
        Ok(x) => x,
        Err(_) => {
            out.count("construction_failed", 1);
            out.count(&format!("construction_failed.{}", case.spec.kind_name()), 1);
            out.digest = 3;
            return out;
        }
    };
    let (x, how) = x;
    out.count(&format!("incarnation.{how}"), 1);
    out.count(&format!("type.{fam}"), 1);
    out.nontrivial = case.spec.n() > 0;
    let before = catch(|| ser_vec(x.as_ref(), 0));
    let pristine = catch(|| x.clone_box()).ok();
    let mut qrng = Rng::new(case.qseed);
    let mut qs_all = gen_queries(&case.spec, &mut qrng, case.n_queries);
    if case.prefetch_heavy {
        out.count("prefetch_heavy_scenarios", 1);
        for q in qs_all.iter_mut() {
            if let Q::Rank(c, i) = q {
                *q = Q::RankPf(*c, *i);
            }
        }
    }
    // ---- 2. sequential purity
    let first: Vec<A> = qs_all.iter().map(|q| catch(|| x.answer(q)).unwrap_or_else(A::Panic)).collect();
    let mut order: Vec<usize> = (0..qs_all.len()).collect();
    qrng.shuffle(&mut order);
    let mut second: Vec<Option<A>> = vec![None; qs_all.len()];
    for &k in &order {
        second[k] = Some(catch(|| x.answer(&qs_all[k])).unwrap_or_else(A::Panic));
    }
    for k in 0..qs_all.len() {
        first[k].digest(&mut digest);
        let again = catch(|| x.answer(&qs_all[k])).unwrap_or_else(A::Panic);
        for (label, other) in [("in another order", second[k].as_ref().unwrap()), ("repeated", &again)] {
            if &first[k] != other {
                out.violate(
                    sig(&fam, &op_name(&qs_all[k]), "answer_depends_on_history", "sequential"),
                    format!("{}: {:?} answered {:?} first and {:?} when {label} on the same value", x.kind(), qs_all[k], first[k], other),
                );
            }
        }
    }
    let after = catch(|| ser_vec(x.as_ref(), 0));
    match (&before, &after) {
        (Ok(Ok(b)), Ok(Ok(a))) => {
            digest.bytes(b);
            if a != b {
                out.violate(
                    sig(&fam, "query_batch", "serialized_form_changed", "sequential"),
                    format!("{}: the serialized form differs before and after a batch of {} queries", x.kind(), qs_all.len()),
                );
            }
        }
        _ => {
            out.count("serialization_unavailable", 1);
        }
    }
    // queries never modify the value: it still equals the clone taken before the first query
    if let Some(p) = &pristine {
        match catch(|| x.eq_dyn(p.as_ref())) {
            Ok(true) => {}
            Ok(false) => out.violate(
                sig(&fam, "query_batch", "value_no_longer_equals_its_earlier_clone", "sequential"),
                format!("{}: after a batch of {} queries the value no longer compares equal to a clone taken before the first query", x.kind(), qs_all.len()),
            ),
            Err(_) => {}
        }
    }
    out.count("sequential_queries", 3 * qs_all.len() as u64);
    // ---- 2b. histories over TWO values in one thread: a second value of the same type and alphabet (the
    // content reversed), both reloaded from their serialized form, queried alternately. State kept outside the
    // value (a thread-local or global memo keyed by something a reload does not refresh) shows up here.
    if let Some(other) = reversed_spec(&case.spec) {
        let z = catch(|| other.build());
        let reload = |v: &dyn DynDs| -> Option<Box<dyn DynDs>> {
            let bytes = catch(|| ser_vec(v, 0)).ok()?.ok()?;
            catch(|| v.de_from(0, &mut &bytes[..])).ok()?.ok()
        };
        if let Ok(z) = z {
            let alone_z: Vec<A> = qs_all.iter().map(|q| catch(|| z.answer(q)).unwrap_or_else(A::Panic)).collect();
            if let (Some(x2), Some(z2)) = (reload(x.as_ref()), reload(z.as_ref())) {
                out.count("two_value_histories", 1);
                for k in 0..qs_all.len() {
                    let a = catch(|| x2.answer(&qs_all[k])).unwrap_or_else(A::Panic);
                    let b = catch(|| z2.answer(&qs_all[k])).unwrap_or_else(A::Panic);
                    for (label, got, want, kind) in [("first", &a, &first[k], x.kind()), ("second", &b, &alone_z[k], z.kind())] {
                        if got != want {
                            out.violate(
                                sig(&fam, &op_name(&qs_all[k]), "answer_depends_on_history", "sequential_two_values"),
                                format!(
                                    "{kind}: two reloaded values of one type queried alternately in one thread: {:?} on the {label} value answered {got:?}, the same value queried alone answers {want:?}",
                                    qs_all[k]
                                ),
                            );
                        }
                    }
                }
            }
        }
    }
    // ---- 3. schedules
    #[cfg(feature = "sched")]
    {
        // queries that panic on a single thread are other properties' subject; a panic inside a simulated
        // thread would be indistinguishable from a failed assertion
        let batch: Vec<(Q, A)> = qs_all
            .iter()
            .cloned()
            .zip(first.iter().cloned())
            .filter(|(_, a)| !matches!(a, A::Panic(_)))
            .collect();
        // the threads share a value nobody has queried yet (a second, identical construction), so that anything
        // done lazily on first use happens under the scheduler; the expected answers come from `x`
        let fresh = catch(|| incarnate(&case.spec, life).0);
        let skip_shuttle = std::env::var("QSIM_NO_SHUTTLE").is_ok() || case.iterations == 0;
        if skip_shuttle {
            out.count("shuttle_phase_skipped", 1);
        }
        // shuttle runs its tasks as coroutines on this one OS thread: a task that blocks on a primitive shuttle does
        // not model (a std Mutex held across an H4 point, say) blocks the whole process although real threads
        // would simply wait. The supervisor recognises that situation by this marker and does not count it.
        let phase_file = std::env::var("QSIM_PHASE_FILE").ok();
        if let (Some(f), false) = (&phase_file, skip_shuttle) {
            let _ = std::fs::write(f, "shuttle");
        }
        if let (false, Ok(y), false) = (batch.is_empty(), fresh, skip_shuttle) {
            drop(x);
            let r = sched::run(case, y, batch, &fam);
            for (k, v) in r.counters {
                out.count(&k, v);
            }
            for h in &r.schedule_hashes {
                digest.u64(*h);
            }
            out.fps.extend(r.schedule_hashes);
            if let Some((detail, class)) = r.failure {
                out.violate(sig(&fam, "concurrent_queries", &class, "schedule"), detail);
            }
            let bytes_after_threads = r.bytes_after;
            if let (Ok(Ok(b)), Some(a)) = (&before, bytes_after_threads) {
                if &a != b {
                    out.violate(
                        sig(&fam, "concurrent_queries", "serialized_form_changed", "schedule"),
                        "the serialized form differs after the simulated threads finished".into(),
                    );
                }
            }
        }
    }
    #[cfg(not(feature = "sched"))]
    {
        let mut fp = Digest::default();
        fp.str(&case.spec.kind_name());
        fp.u64(fnv(&(case.spec.n() as u64 / 64).to_le_bytes()));
        out.fps.push(fp.0);
        drop(x);
    }
    let _ = fnv(b"");
    #[cfg(feature = "sched")]
    if let Ok(f) = std::env::var("QSIM_PHASE_FILE") {
        let _ = std::fs::remove_file(f);
    }
    let _ = qwt::verif::take_probes();
    out.digest = digest.0;
    out
}

#[cfg(feature = "sched")]
pub mod sched {
    use std::collections::BTreeMap;
    use std::sync::atomic::{AtomicBool, AtomicU64, Ordering};
    use std::sync::{Arc, Mutex};

    use shuttle::scheduler::{PctScheduler, RandomScheduler, ReplayScheduler, Schedule, Scheduler, Task, TaskId};
    use shuttle::{Config, FailurePersistence, Runner};

    use super::{SchedKind, ThrCase};
    use crate::core::catch;
    use crate::ds::{ser_vec, DynDs, A, Q};
    use crate::prng::mix;

    static IN_HOOK: AtomicBool = AtomicBool::new(false);
    static HOOK_CALLS: AtomicU64 = AtomicU64::new(0);

    fn hook() {
        HOOK_CALLS.fetch_add(1, Ordering::Relaxed);
        IN_HOOK.store(true, Ordering::Relaxed);
        // sleep(0), not yield_now: a yield marks the task as de-prioritised and PCT degenerates
        shuttle::thread::sleep(std::time::Duration::ZERO);
        IN_HOOK.store(false, Ordering::Relaxed);
    }

    #[derive(Default)]
    struct Stats {
        executions: u64,
        decisions: u64,
        switches: u64,
        switches_at_h4: u64,
        cur_hash: u64,
        hashes: Vec<u64>,
    }

    /// Wraps a scheduler and measures what it explored.
    struct Recording<S> {
        inner: S,
        stats: Arc<Mutex<Stats>>,
    }

    impl<S: Scheduler> Scheduler for Recording<S> {
        fn new_execution(&mut self) -> Option<Schedule> {
            let mut st = self.stats.lock().unwrap();
            if st.executions > 0 {
                let h = st.cur_hash;
                st.hashes.push(h);
            }
            st.cur_hash = 0x9E37;
            let r = self.inner.new_execution();
            if r.is_some() {
                st.executions += 1;
            }
            r
        }
        fn next_task(&mut self, runnable: &[&Task], current: Option<TaskId>, is_yielding: bool) -> Option<TaskId> {
            let choice = self.inner.next_task(runnable, current, is_yielding);
            let mut st = self.stats.lock().unwrap();
            st.decisions += 1;
            if let Some(c) = choice {
                let id: usize = c.into();
                st.cur_hash = mix(st.cur_hash, id as u64);
                if let Some(cur) = current {
                    if cur != c {
                        st.switches += 1;
                        if IN_HOOK.load(Ordering::Relaxed) {
                            st.switches_at_h4 += 1;
                        }
                    }
                }
            }
            choice
        }
        fn next_u64(&mut self) -> u64 {
            self.inner.next_u64()
        }
    }

    pub struct SchedResult {
        pub counters: BTreeMap<String, u64>,
        pub schedule_hashes: Vec<u64>,
        /// (detail, class)
        pub failure: Option<(String, String)>,
        pub bytes_after: Option<Vec<u8>>,
    }

    pub fn run(case: &ThrCase, x: Box<dyn DynDs>, batch: Vec<(Q, A)>, fam: &str) -> SchedResult {
        let r = run_once(case, x.clone_box(), batch.clone(), fam);
        if case.replay_schedule.is_some() {
            if let Some((detail, class)) = &r.failure {
                if class != "answer_differs_from_single_thread" {
                    // the recorded schedule does not fit this code any more (shuttle reports e.g. "schedule ended
                    // early"): that says nothing about the property; explore seeded schedules instead
                    let _ = detail;
                    let mut c = case.clone();
                    c.replay_schedule = None;
                    let mut r2 = run_once(&c, x, batch, fam);
                    r2.counters.insert("recorded_schedule_not_applicable".into(), 1);
                    return r2;
                }
            }
        }
        r
    }

    fn run_once(case: &ThrCase, x: Box<dyn DynDs>, batch: Vec<(Q, A)>, _fam: &str) -> SchedResult {
        std::env::remove_var("SHUTTLE_RANDOM_SEED");
        let kind = x.kind();
        let shared: Arc<(Box<dyn DynDs>, Vec<(Q, A)>)> = Arc::new((x, batch));
        let threads = case.threads.max(2);
        let stats = Arc::new(Mutex::new(Stats::default()));
        let dir = crate::sup::tmp_dir().join(format!("sched-{}-{}", std::process::id(), case.sched_seed));
        let _ = std::fs::remove_dir_all(&dir);
        let _ = std::fs::create_dir_all(&dir);
        let mut config = Config::new();
        config.failure_persistence = FailurePersistence::File(Some(dir.clone()));
        config.silence_warnings = true;
        let sh = shared.clone();
        let scenario = move || {
            let n = sh.1.len();
            let mut handles = vec![];
            for j in 0..threads {
                let sh = sh.clone();
                handles.push(shuttle::thread::spawn(move || {
                    // overlapping slices: thread j starts at j*n/threads and covers two thirds of the batch
                    let start = j * n / threads;
                    let count = (2 * n / 3).max(1);
                    for k in 0..count {
                        let (q, expect) = &sh.1[(start + k) % n];
                        let got = sh.0.answer(q);
                        assert!(
                            &got == expect,
                            "C18-MISMATCH thread {j} query {q:?} answered {got:?}, a single thread gets {expect:?}"
                        );
                        shuttle::thread::sleep(std::time::Duration::ZERO);
                    }
                }));
            }
            for h in handles {
                h.join().unwrap();
            }
        };
        HOOK_CALLS.store(0, Ordering::Relaxed);
        qwt::verif::set_sched_hook(Some(hook));
        let res = catch(|| match (&case.replay_schedule, &case.sched) {
            (Some(s), _) => {
                let sch = Recording {
                    inner: ReplayScheduler::new_from_encoded(s),
                    stats: stats.clone(),
                };
                Runner::new(sch, config.clone()).run(scenario)
            }
            (None, SchedKind::Random) => {
                let sch = Recording {
                    inner: RandomScheduler::new_from_seed(case.sched_seed, case.iterations),
                    stats: stats.clone(),
                };
                Runner::new(sch, config.clone()).run(scenario)
            }
            (None, SchedKind::Pct(d)) => {
                let sch = Recording {
                    inner: PctScheduler::new_from_seed(case.sched_seed, *d, case.iterations),
                    stats: stats.clone(),
                };
                Runner::new(sch, config.clone()).run(scenario)
            }
        });
        qwt::verif::set_sched_hook(None);
        IN_HOOK.store(false, Ordering::Relaxed);
        let mut counters = BTreeMap::new();
        let st = stats.lock().unwrap();
        counters.insert("schedules_run".to_string(), st.executions);
        counters.insert("scheduling_decisions".to_string(), st.decisions);
        counters.insert("fault.context_switch".to_string(), st.switches);
        counters.insert("probe.context_switch_inside_a_query_at_H4".to_string(), st.switches_at_h4);
        counters.insert("h4_points_reached".to_string(), HOOK_CALLS.load(Ordering::Relaxed));
        counters.insert(
            match case.sched {
                SchedKind::Random => "scheduler.random".to_string(),
                SchedKind::Pct(_) => "scheduler.pct".to_string(),
            },
            1,
        );
        let mut hashes = st.hashes.clone();
        hashes.push(st.cur_hash);
        let failure = match res {
            Ok(_) => None,
            Err(msg) => {
                // shuttle's panic hook persisted the failing schedule into `dir`
                let mut sched = String::new();
                if let Ok(rd) = std::fs::read_dir(&dir) {
                    let mut files: Vec<_> = rd.filter_map(|e| e.ok()).map(|e| e.path()).collect();
                    files.sort();
                    if let Some(f) = files.first() {
                        sched = std::fs::read_to_string(f).unwrap_or_default();
                    }
                }
                let class = if msg.contains("C18-MISMATCH") {
                    "answer_differs_from_single_thread".to_string()
                } else {
                    crate::core::panic_kind(&msg).to_string()
                };
                Some((
                    format!(
                        "{kind} shared by {threads} simulated threads: {msg}; schedule=\"{}\"",
                        sched.trim().replace('\n', "")
                    ),
                    class,
                ))
            }
        };
        let _ = std::fs::remove_dir_all(&dir);
        let bytes_after = match catch(|| ser_vec(shared.0.as_ref(), 0)) {
            Ok(Ok(b)) => Some(b),
            _ => None,
        };
        SchedResult {
            counters,
            schedule_hashes: hashes,
            failure,
            bytes_after,
        }
    }
}
