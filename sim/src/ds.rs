//! Dynamic layer over every public structure of qwt: one object-safe trait so that workloads are not generic.
//! All of this is a thin veneer: every method calls the real qwt method and converts the result.

use std::any::Any;
use std::io::{Read, Write};

use bincode::Options;
use num_traits::{AsPrimitive, NumCast, ToPrimitive};
use qwt::quadwt::WTIndexable;
use qwt::{
    AccessBin, AccessQuad, AccessUnsigned, BitVector, BitVectorMut, DArray, QVector, RSNarrow, RSQVector256,
    RSQVector512, RSWide, RankBin, RankQuad, RankUnsigned, SelectBin, SelectQuad, SelectUnsigned, SpaceUsage,
    WTSupport, HQWT256, HQWT256Pfs, HQWT512, HQWT512Pfs, HWT, QWT256, QWT256Pfs, QWT512, QWT512Pfs, WT,
};
use serde::de::DeserializeOwned;
use serde::{Deserialize, Serialize};

use crate::prng::Digest;

/// A symbol value. Serialized as a JSON number when it fits in u64 and as a decimal string otherwise.
#[derive(Clone, Copy, Debug, PartialEq, Eq, PartialOrd, Ord, Hash)]
pub struct Sym(pub u128);

impl Serialize for Sym {
    fn serialize<S: serde::Serializer>(&self, s: S) -> Result<S::Ok, S::Error> {
        if self.0 <= u64::MAX as u128 {
            s.serialize_u64(self.0 as u64)
        } else {
            s.serialize_str(&self.0.to_string())
        }
    }
}

impl<'de> Deserialize<'de> for Sym {
    fn deserialize<D: serde::Deserializer<'de>>(d: D) -> Result<Self, D::Error> {
        #[derive(Deserialize)]
        #[serde(untagged)]
        enum E {
            N(u64),
            S(String),
        }
        match E::deserialize(d)? {
            E::N(n) => Ok(Sym(n as u128)),
            E::S(s) => s.parse::<u128>().map(Sym).map_err(serde::de::Error::custom),
        }
    }
}

/// One query against a structure. Not every structure supports every query (`A::Unsupported`).
#[derive(Clone, Debug, PartialEq, Serialize, Deserialize)]
pub enum Q {
    Len,
    IsEmpty,
    NLevels,
    Sigma,
    Space,
    Get(usize),
    Rank(Sym, usize),
    RankPf(Sym, usize),
    Select(Sym, usize),
    Rank1(usize),
    Rank0(usize),
    Select1(usize),
    Select0(usize),
    Occs(u8),
    OccsSmaller(u8),
    GetBits(usize, usize),
    GetWord(usize),
    CountOnes,
    CountZeros,
    IterHash,
    OnesFrom(usize),
    ZerosFrom(usize),
}

/// Answer of a query.
#[derive(Clone, Debug, PartialEq, Serialize, Deserialize)]
pub enum A {
    Unsupported,
    None,
    U(Sym),
    B(bool),
    /// A whole iteration, summarised: number of items and order-sensitive hash.
    H(u64, u64),
    /// The call panicked (message, without location noise).
    Panic(String),
}

impl A {
    pub fn digest(&self, d: &mut Digest) {
        match self {
            A::Unsupported => d.u64(0xA0),
            A::None => d.u64(0xA1),
            A::U(s) => {
                d.u64(0xA2);
                d.u128(s.0)
            }
            A::B(b) => d.u64(0xA3 + *b as u64 * 16),
            A::H(n, h) => {
                d.u64(0xA4);
                d.u64(*n);
                d.u64(*h)
            }
            A::Panic(m) => {
                d.u64(0xA5);
                d.str(m)
            }
        }
    }
}

fn ou(x: Option<usize>) -> A {
    match x {
        None => A::None,
        Some(v) => A::U(Sym(v as u128)),
    }
}

fn ob(x: Option<bool>) -> A {
    match x {
        None => A::None,
        Some(v) => A::B(v),
    }
}

fn hash_iter<I: Iterator<Item = u128>>(it: I) -> A {
    let mut d = Digest::default();
    let mut n = 0u64;
    for x in it {
        d.u128(x);
        n += 1;
    }
    A::H(n, d.0)
}

/// The iterators a structure can hand out.
#[derive(Clone, Copy, Debug, PartialEq, Eq, Serialize, Deserialize)]
pub enum IterKind {
    /// `x.iter()`
    Iter,
    /// `(&x).into_iter()`
    RefIntoIter,
    /// `x.into_iter()` (consuming)
    IntoIter,
    Ones,
    Zeros,
    OnesFrom(usize),
    ZerosFrom(usize),
}

/// Object-safe view of an iterator: `None` from `next_back`/`len` means "this iterator type has no such method".
pub trait DynIter {
    fn next(&mut self) -> Option<u128>;
    fn next_back(&mut self) -> Option<Option<u128>>;
    fn len(&self) -> Option<usize>;
    fn size_hint(&self) -> (usize, Option<usize>);
    /// Consumes the rest through `Iterator::fold` (internal iteration: the path `for_each`, `sum`, `count` take).
    fn fold_rest(self: Box<Self>) -> Vec<u128>;
    /// `Iterator::nth(k)`
    fn nth(&mut self, k: usize) -> Option<u128>;
    /// `DoubleEndedIterator::nth_back(k)`; outer `None` = not double ended
    fn nth_back(&mut self, k: usize) -> Option<Option<u128>>;
    /// `Iterator::count()` of the rest
    fn count_rest(self: Box<Self>) -> usize;
    /// `Iterator::last()` of the rest
    fn last_rest(self: Box<Self>) -> Option<u128>;
    /// `DoubleEndedIterator::rfold` over the rest (what `rev().for_each` / `rev().collect` use); `None` = not double ended
    fn rfold_rest(self: Box<Self>) -> Option<Vec<u128>> {
        None
    }
    /// `Iterator::min()` / `max()` of the rest (the element order agrees with the order of the converted values)
    fn min_rest(self: Box<Self>) -> Option<u128>;
    fn max_rest(self: Box<Self>) -> Option<u128>;
}

// The wrappers hold the library's iterator itself (not a `Map` over it), so that every method the iterator type
// overrides (nth, nth_back, fold, count, last, size_hint, len) is the one that gets called.
macro_rules! dyn_iter_common {
    () => {
        fn next(&mut self) -> Option<u128> {
            self.0.next().map(self.1)
        }
        fn size_hint(&self) -> (usize, Option<usize>) {
            self.0.size_hint()
        }
        fn fold_rest(self: Box<Self>) -> Vec<u128> {
            let conv = self.1;
            self.0.fold(Vec::new(), |mut v, x| {
                assert!(v.len() < (1 << 22), "the iterator does not end: more than 4 194 304 elements folded");
                v.push(conv(x));
                v
            })
        }
        fn nth(&mut self, k: usize) -> Option<u128> {
            self.0.nth(k).map(self.1)
        }
        fn count_rest(self: Box<Self>) -> usize {
            self.0.count()
        }
        fn last_rest(self: Box<Self>) -> Option<u128> {
            self.0.last().map(self.1)
        }
        fn min_rest(self: Box<Self>) -> Option<u128> {
            self.0.min().map(self.1)
        }
        fn max_rest(self: Box<Self>) -> Option<u128> {
            self.0.max().map(self.1)
        }
    };
}

struct FwdOnly<I: Iterator>(I, fn(I::Item) -> u128);
impl<I: Iterator> DynIter for FwdOnly<I>
where
    I::Item: Clone + Ord,
{
    fn next_back(&mut self) -> Option<Option<u128>> {
        None
    }
    fn len(&self) -> Option<usize> {
        None
    }
    fn nth_back(&mut self, _k: usize) -> Option<Option<u128>> {
        None
    }
    dyn_iter_common!();
}

struct FwdExact<I: Iterator>(I, fn(I::Item) -> u128);
impl<I: Iterator + ExactSizeIterator> DynIter for FwdExact<I>
where
    I::Item: Clone + Ord,
{
    fn next_back(&mut self) -> Option<Option<u128>> {
        None
    }
    fn len(&self) -> Option<usize> {
        Some(self.0.len())
    }
    fn nth_back(&mut self, _k: usize) -> Option<Option<u128>> {
        None
    }
    dyn_iter_common!();
}

struct Full<I: Iterator>(I, fn(I::Item) -> u128);
impl<I: Iterator + ExactSizeIterator + DoubleEndedIterator> DynIter for Full<I>
where
    I::Item: Clone + Ord,
{
    fn next_back(&mut self) -> Option<Option<u128>> {
        Some(self.0.next_back().map(self.1))
    }
    fn len(&self) -> Option<usize> {
        Some(self.0.len())
    }
    fn nth_back(&mut self, k: usize) -> Option<Option<u128>> {
        Some(self.0.nth_back(k).map(self.1))
    }
    fn rfold_rest(self: Box<Self>) -> Option<Vec<u128>> {
        let conv = self.1;
        Some(self.0.rfold(Vec::new(), |mut v, x| {
            assert!(v.len() < (1 << 22), "the iterator does not end: more than 4 194 304 elements folded from the back");
            v.push(conv(x));
            v
        }))
    }
    dyn_iter_common!();
}

/// Adapter so that `ExactSizeIterator`/`DoubleEndedIterator` survive the element conversion
/// (`Iterator::map` forwards both).
fn conv_t<T: ToPrimitive>(x: T) -> u128 {
    x.to_u128().expect("element does not fit u128")
}

pub const BINCODE_CONFIGS: [&str; 4] = ["fixint_le", "fixint_be", "varint_le", "varint_be"];

pub fn ser_with<T: Serialize + ?Sized>(cfg: u8, v: &T, w: &mut dyn Write) -> Result<(), String> {
    let r = match cfg {
        0 => bincode::DefaultOptions::new()
            .with_fixint_encoding()
            .with_little_endian()
            .serialize_into(w, v),
        1 => bincode::DefaultOptions::new()
            .with_fixint_encoding()
            .with_big_endian()
            .serialize_into(w, v),
        2 => bincode::DefaultOptions::new()
            .with_varint_encoding()
            .with_little_endian()
            .serialize_into(w, v),
        3 => bincode::DefaultOptions::new()
            .with_varint_encoding()
            .with_big_endian()
            .serialize_into(w, v),
        // the plain top-level functions users call first: bincode::serialize_into
        _ => bincode::serialize_into(w, v),
    };
    r.map_err(|e| format!("{e}"))
}

pub fn de_with<T: DeserializeOwned>(cfg: u8, r: &mut dyn Read) -> Result<T, String> {
    let r = match cfg {
        0 => bincode::DefaultOptions::new()
            .with_fixint_encoding()
            .with_little_endian()
            .deserialize_from(r),
        1 => bincode::DefaultOptions::new()
            .with_fixint_encoding()
            .with_big_endian()
            .deserialize_from(r),
        2 => bincode::DefaultOptions::new()
            .with_varint_encoding()
            .with_little_endian()
            .deserialize_from(r),
        3 => bincode::DefaultOptions::new()
            .with_varint_encoding()
            .with_big_endian()
            .deserialize_from(r),
        _ => bincode::deserialize_from(r),
    };
    r.map_err(|e| format!("{e}"))
}

pub fn de_slice_with<T: DeserializeOwned>(cfg: u8, bytes: &[u8]) -> Result<T, String> {
    let r = match cfg {
        0 => bincode::DefaultOptions::new()
            .with_fixint_encoding()
            .with_little_endian()
            .deserialize(bytes),
        1 => bincode::DefaultOptions::new()
            .with_fixint_encoding()
            .with_big_endian()
            .deserialize(bytes),
        2 => bincode::DefaultOptions::new()
            .with_varint_encoding()
            .with_little_endian()
            .deserialize(bytes),
        3 => bincode::DefaultOptions::new()
            .with_varint_encoding()
            .with_big_endian()
            .deserialize(bytes),
        // the plain top-level function users call first: bincode::deserialize(&bytes)
        _ => bincode::deserialize(bytes),
    };
    r.map_err(|e| format!("{e}"))
}

/// Object-safe face of a qwt structure.
pub trait DynDs: Send + Sync {
    fn kind(&self) -> String;
    fn len(&self) -> usize;
    fn answer(&self, q: &Q) -> A;
    fn ser_into(&self, cfg: u8, w: &mut dyn Write) -> Result<(), String>;
    /// Deserializes a value of the same concrete type as `self`.
    fn de_from(&self, cfg: u8, r: &mut dyn Read) -> Result<Box<dyn DynDs>, String>;
    /// Same from a byte slice (bincode's borrowing slice reader: a different code path than `de_from`).
    fn de_slice(&self, cfg: u8, bytes: &[u8]) -> Result<Box<dyn DynDs>, String>;
    fn eq_dyn(&self, other: &dyn DynDs) -> bool;
    fn clone_box(&self) -> Box<dyn DynDs>;
    /// `self.clone_from(src)` when `src` has the same concrete type (false otherwise, `self` untouched)
    fn clone_from_dyn(&mut self, _src: &dyn DynDs) -> bool {
        false
    }
    fn as_any(&self) -> &dyn Any;
    fn iter_box<'a>(&'a self, kind: IterKind) -> Option<Box<dyn DynIter + 'a>>;
    fn into_iter_box(self: Box<Self>) -> Option<Box<dyn DynIter>>;
}

pub fn ser_vec(x: &dyn DynDs, cfg: u8) -> Result<Vec<u8>, String> {
    let mut v = Vec::new();
    x.ser_into(cfg, &mut v)?;
    Ok(v)
}

pub trait Elem:
    WTIndexable + Serialize + DeserializeOwned + Send + Sync + std::fmt::Debug + NumCast + ToPrimitive + Default + 'static
{
    const NAME: &'static str;
}
macro_rules! elem {
    ($($t:ty),*) => { $(impl Elem for $t { const NAME: &'static str = stringify!($t); })* };
}
elem!(u8, u16, u32, u64, usize, u128);

fn cast_sym<T: Elem>(s: Sym) -> T {
    <T as NumCast>::from(s.0).unwrap_or_else(|| panic!("harness bug: symbol {} does not fit {}", s.0, T::NAME))
}

macro_rules! common_ds {
    () => {
        fn ser_into(&self, cfg: u8, w: &mut dyn Write) -> Result<(), String> {
            ser_with(cfg, &self.0, w)
        }
        fn eq_dyn(&self, other: &dyn DynDs) -> bool {
            match other.as_any().downcast_ref::<Self>() {
                Some(o) => self.0 == o.0,
                None => false,
            }
        }
        fn clone_box(&self) -> Box<dyn DynDs> {
            Box::new(Self(self.0.clone()))
        }
        fn clone_from_dyn(&mut self, src: &dyn DynDs) -> bool {
            match src.as_any().downcast_ref::<Self>() {
                Some(o) => {
                    self.0.clone_from(&o.0);
                    true
                }
                None => false,
            }
        }
        fn as_any(&self) -> &dyn Any {
            self
        }
    };
}

// ------------------------------------------------------------------------------------------------ trees

macro_rules! tree_ds {
    ($wrap:ident, $alias:ident, $name:expr, $pf:tt, $sigma:tt) => {
        pub struct $wrap<T>(pub $alias<T>);

        impl<T: Elem> DynDs for $wrap<T>
        where
            usize: AsPrimitive<T>,
        {
            fn kind(&self) -> String {
                format!("{}<{}>", $name, T::NAME)
            }
            fn len(&self) -> usize {
                self.0.len()
            }
            fn answer(&self, q: &Q) -> A {
                match q {
                    Q::Len => A::U(Sym(self.0.len() as u128)),
                    Q::IsEmpty => A::B(self.0.is_empty()),
                    Q::NLevels => A::U(Sym(self.0.n_levels() as u128)),
                    Q::Sigma => tree_ds!(@sigma $sigma, self),
                    Q::Space => A::U(Sym(self.0.space_usage_byte() as u128)),
                    Q::Get(i) => match self.0.get(*i) {
                        None => A::None,
                        Some(v) => A::U(Sym(conv_t(v))),
                    },
                    Q::Rank(c, i) => ou(self.0.rank(cast_sym::<T>(*c), *i)),
                    Q::RankPf(c, i) => tree_ds!(@pf $pf, self, c, i),
                    Q::Select(c, k) => ou(self.0.select(cast_sym::<T>(*c), *k)),
                    Q::IterHash => hash_iter(self.0.iter().map(conv_t)),
                    _ => A::Unsupported,
                }
            }
            fn de_from(&self, cfg: u8, r: &mut dyn Read) -> Result<Box<dyn DynDs>, String> {
                let v: $alias<T> = de_with(cfg, r)?;
                Ok(Box::new($wrap(v)))
            }
            fn de_slice(&self, cfg: u8, bytes: &[u8]) -> Result<Box<dyn DynDs>, String> {
                let v: $alias<T> = de_slice_with(cfg, bytes)?;
                Ok(Box::new($wrap(v)))
            }
            common_ds!();
            fn iter_box<'a>(&'a self, kind: IterKind) -> Option<Box<dyn DynIter + 'a>> {
                match kind {
                    IterKind::Iter => Some(Box::new(Full(self.0.iter(), conv_t))),
                    IterKind::RefIntoIter => Some(Box::new(Full((&self.0).into_iter(), conv_t))),
                    _ => None,
                }
            }
            fn into_iter_box(self: Box<Self>) -> Option<Box<dyn DynIter>> {
                Some(Box::new(Full(self.0.into_iter(), conv_t)))
            }
        }
    };
    (@pf yes, $s:ident, $c:ident, $i:ident) => { ou($s.0.rank_prefetch(cast_sym::<T>(*$c), *$i)) };
    (@pf no, $s:ident, $c:ident, $i:ident) => { A::Unsupported };
    (@sigma yes, $s:ident) => { match $s.0.sigma() { None => A::None, Some(v) => A::U(Sym(conv_t(v))) } };
    (@sigma no, $s:ident) => { A::Unsupported };
}

tree_ds!(Qwt256Ds, QWT256, "QWT256", yes, yes);
tree_ds!(Qwt512Ds, QWT512, "QWT512", yes, yes);
tree_ds!(Qwt256PfsDs, QWT256Pfs, "QWT256Pfs", yes, yes);
tree_ds!(Qwt512PfsDs, QWT512Pfs, "QWT512Pfs", yes, yes);
tree_ds!(Hqwt256Ds, HQWT256, "HQWT256", yes, no);
tree_ds!(Hqwt512Ds, HQWT512, "HQWT512", yes, no);
tree_ds!(Hqwt256PfsDs, HQWT256Pfs, "HQWT256Pfs", yes, no);
tree_ds!(Hqwt512PfsDs, HQWT512Pfs, "HQWT512Pfs", yes, no);
tree_ds!(WtDs, WT, "WT", no, no);
tree_ds!(HwtDs, HWT, "HWT", no, no);

#[derive(Clone, Copy, Debug, PartialEq, Eq, PartialOrd, Ord, Serialize, Deserialize)]
pub enum Alias {
    QWT256,
    QWT512,
    QWT256Pfs,
    QWT512Pfs,
    HQWT256,
    HQWT512,
    HQWT256Pfs,
    HQWT512Pfs,
    WT,
    HWT,
}

pub const QUAD_PLAIN: [Alias; 4] = [Alias::QWT256, Alias::QWT512, Alias::QWT256Pfs, Alias::QWT512Pfs];
pub const QUAD_HUFF: [Alias; 4] = [Alias::HQWT256, Alias::HQWT512, Alias::HQWT256Pfs, Alias::HQWT512Pfs];
pub const ALL_TREES: [Alias; 10] = [
    Alias::QWT256,
    Alias::QWT512,
    Alias::QWT256Pfs,
    Alias::QWT512Pfs,
    Alias::HQWT256,
    Alias::HQWT512,
    Alias::HQWT256Pfs,
    Alias::HQWT512Pfs,
    Alias::WT,
    Alias::HWT,
];

impl Alias {
    pub fn is_huffman(self) -> bool {
        matches!(
            self,
            Alias::HQWT256 | Alias::HQWT512 | Alias::HQWT256Pfs | Alias::HQWT512Pfs | Alias::HWT
        )
    }
    pub fn is_quad(self) -> bool {
        !matches!(self, Alias::WT | Alias::HWT)
    }
    pub fn has_pfs(self) -> bool {
        matches!(
            self,
            Alias::QWT256Pfs | Alias::QWT512Pfs | Alias::HQWT256Pfs | Alias::HQWT512Pfs
        )
    }
    /// The alias that differs only in prefetch support (same serialized form), if any.
    pub fn prefetch_sibling(self) -> Option<Alias> {
        Some(match self {
            Alias::QWT256 => Alias::QWT256Pfs,
            Alias::QWT256Pfs => Alias::QWT256,
            Alias::QWT512 => Alias::QWT512Pfs,
            Alias::QWT512Pfs => Alias::QWT512,
            Alias::HQWT256 => Alias::HQWT256Pfs,
            Alias::HQWT256Pfs => Alias::HQWT256,
            Alias::HQWT512 => Alias::HQWT512Pfs,
            Alias::HQWT512Pfs => Alias::HQWT512,
            Alias::WT | Alias::HWT => return None,
        })
    }

    pub fn family(self) -> &'static str {
        match self {
            Alias::WT => "WT",
            Alias::HWT => "HWT",
            a if a.is_huffman() => "HQWT",
            _ => "QWT",
        }
    }
}

#[derive(Clone, Copy, Debug, PartialEq, Eq, PartialOrd, Ord, Serialize, Deserialize)]
pub enum Ty {
    U8,
    U16,
    U32,
    U64,
    Usize,
    U128,
}

pub const ALL_TYS: [Ty; 6] = [Ty::U8, Ty::U16, Ty::U32, Ty::U64, Ty::Usize, Ty::U128];

impl Ty {
    pub fn max(self) -> u128 {
        match self {
            Ty::U8 => u8::MAX as u128,
            Ty::U16 => u16::MAX as u128,
            Ty::U32 => u32::MAX as u128,
            Ty::U64 => u64::MAX as u128,
            Ty::Usize => usize::MAX as u128,
            Ty::U128 => u128::MAX,
        }
    }
    pub fn bits(self) -> u32 {
        match self {
            Ty::U8 => 8,
            Ty::U16 => 16,
            Ty::U32 => 32,
            Ty::U64 | Ty::Usize => 64,
            Ty::U128 => 128,
        }
    }
}

/// The three public ways to construct a tree.
#[derive(Clone, Copy, Debug, PartialEq, Eq, PartialOrd, Ord, Serialize, Deserialize)]
pub enum Path {
    New,
    FromVec,
    Collect,
}
pub const ALL_PATHS: [Path; 3] = [Path::New, Path::FromVec, Path::Collect];

macro_rules! mk {
    ($alias:ident, $t:ty, $path:expr, $v:expr) => {
        match $path {
            Path::New => {
                let mut v = $v;
                $alias::<$t>::new(&mut v[..])
            }
            Path::FromVec => $alias::<$t>::from($v),
            Path::Collect => {
                // the source reports an exact or a legal-but-unhelpful size hint (chosen by the length)
                let style = ($v.len() % crate::core::HINT_STYLES as usize) as u8;
                crate::core::Hinted { inner: $v.into_iter(), style }.collect::<$alias<$t>>()
            }
        }
    };
}

fn build_t<T: Elem>(alias: Alias, path: Path, seq: &[u128]) -> Box<dyn DynDs>
where
    usize: AsPrimitive<T>,
{
    let v: Vec<T> = seq.iter().map(|&x| cast_sym::<T>(Sym(x))).collect();
    match alias {
        Alias::QWT256 => Box::new(Qwt256Ds(mk!(QWT256, T, path, v))),
        Alias::QWT512 => Box::new(Qwt512Ds(mk!(QWT512, T, path, v))),
        Alias::QWT256Pfs => Box::new(Qwt256PfsDs(mk!(QWT256Pfs, T, path, v))),
        Alias::QWT512Pfs => Box::new(Qwt512PfsDs(mk!(QWT512Pfs, T, path, v))),
        Alias::HQWT256 => Box::new(Hqwt256Ds(mk!(HQWT256, T, path, v))),
        Alias::HQWT512 => Box::new(Hqwt512Ds(mk!(HQWT512, T, path, v))),
        Alias::HQWT256Pfs => Box::new(Hqwt256PfsDs(mk!(HQWT256Pfs, T, path, v))),
        Alias::HQWT512Pfs => Box::new(Hqwt512PfsDs(mk!(HQWT512Pfs, T, path, v))),
        Alias::WT => Box::new(WtDs(mk!(WT, T, path, v))),
        Alias::HWT => Box::new(HwtDs(mk!(HWT, T, path, v))),
    }
}

/// Builds a tree through the real constructors. Panics propagate (callers catch them).
pub fn build_tree(alias: Alias, ty: Ty, path: Path, seq: &[u128]) -> Box<dyn DynDs> {
    match ty {
        Ty::U8 => build_t::<u8>(alias, path, seq),
        Ty::U16 => build_t::<u16>(alias, path, seq),
        Ty::U32 => build_t::<u32>(alias, path, seq),
        Ty::U64 => build_t::<u64>(alias, path, seq),
        Ty::Usize => build_t::<usize>(alias, path, seq),
        Ty::U128 => build_t::<u128>(alias, path, seq),
    }
}

fn default_t<T: Elem>(alias: Alias) -> Box<dyn DynDs>
where
    usize: AsPrimitive<T>,
{
    match alias {
        Alias::QWT256 => Box::new(Qwt256Ds(QWT256::<T>::default())),
        Alias::QWT512 => Box::new(Qwt512Ds(QWT512::<T>::default())),
        Alias::QWT256Pfs => Box::new(Qwt256PfsDs(QWT256Pfs::<T>::default())),
        Alias::QWT512Pfs => Box::new(Qwt512PfsDs(QWT512Pfs::<T>::default())),
        Alias::HQWT256 => Box::new(Hqwt256Ds(HQWT256::<T>::default())),
        Alias::HQWT512 => Box::new(Hqwt512Ds(HQWT512::<T>::default())),
        Alias::HQWT256Pfs => Box::new(Hqwt256PfsDs(HQWT256Pfs::<T>::default())),
        Alias::HQWT512Pfs => Box::new(Hqwt512PfsDs(HQWT512Pfs::<T>::default())),
        Alias::WT => Box::new(WtDs(WT::<T>::default())),
        Alias::HWT => Box::new(HwtDs(HWT::<T>::default())),
    }
}

/// `Default::default()` of a tree type.
pub fn default_tree(alias: Alias, ty: Ty) -> Box<dyn DynDs> {
    match ty {
        Ty::U8 => default_t::<u8>(alias),
        Ty::U16 => default_t::<u16>(alias),
        Ty::U32 => default_t::<u32>(alias),
        Ty::U64 => default_t::<u64>(alias),
        Ty::Usize => default_t::<usize>(alias),
        Ty::U128 => default_t::<u128>(alias),
    }
}

// ------------------------------------------------------------------------------------------------ bit vectors

fn ones_from<'a>(it: qwt::bitvector::BitVectorBitPositionsIter<'a, true>) -> Box<dyn DynIter + 'a> {
    Box::new(FwdOnly(it, |p| p as u128))
}
fn zeros_from<'a>(it: qwt::bitvector::BitVectorBitPositionsIter<'a, false>) -> Box<dyn DynIter + 'a> {
    Box::new(FwdOnly(it, |p| p as u128))
}

macro_rules! bv_common_answers {
    ($s:ident, $q:ident) => {
        match $q {
            Q::Len => A::U(Sym($s.0.len() as u128)),
            Q::IsEmpty => A::B($s.0.is_empty()),
            Q::Space => A::U(Sym($s.0.space_usage_byte() as u128)),
            Q::Get(i) => ob($s.0.get(*i)),
            Q::GetBits(i, l) => match $s.0.get_bits(*i, *l) {
                None => A::None,
                Some(v) => A::U(Sym(v as u128)),
            },
            Q::GetWord(w) => A::U(Sym($s.0.get_word(*w) as u128)),
            Q::CountOnes => A::U(Sym($s.0.count_ones() as u128)),
            Q::CountZeros => A::U(Sym($s.0.count_zeros() as u128)),
            Q::IterHash => hash_iter($s.0.iter().map(|b| b as u128)),
            Q::OnesFrom(p) => hash_iter($s.0.ones_with_pos(*p).map(|p| p as u128)),
            Q::ZerosFrom(p) => hash_iter($s.0.zeros_with_pos(*p).map(|p| p as u128)),
            _ => A::Unsupported,
        }
    };
}

pub struct BvDs(pub BitVector);
impl DynDs for BvDs {
    fn kind(&self) -> String {
        "BitVector".into()
    }
    fn len(&self) -> usize {
        self.0.len()
    }
    fn answer(&self, q: &Q) -> A {
        bv_common_answers!(self, q)
    }
    fn de_from(&self, cfg: u8, r: &mut dyn Read) -> Result<Box<dyn DynDs>, String> {
        let v: BitVector = de_with(cfg, r)?;
        Ok(Box::new(BvDs(v)))
    }
    fn de_slice(&self, cfg: u8, bytes: &[u8]) -> Result<Box<dyn DynDs>, String> {
        let v: BitVector = de_slice_with(cfg, bytes)?;
        Ok(Box::new(BvDs(v)))
    }
    common_ds!();
    fn iter_box<'a>(&'a self, kind: IterKind) -> Option<Box<dyn DynIter + 'a>> {
        match kind {
            IterKind::Iter => Some(Box::new(FwdExact(self.0.iter(), |b| b as u128))),
            IterKind::RefIntoIter => Some(Box::new(FwdExact((&self.0).into_iter(), |b| b as u128))),
            IterKind::Ones => Some(ones_from(self.0.ones())),
            IterKind::Zeros => Some(zeros_from(self.0.zeros())),
            IterKind::OnesFrom(p) => Some(ones_from(self.0.ones_with_pos(p))),
            IterKind::ZerosFrom(p) => Some(zeros_from(self.0.zeros_with_pos(p))),
            IterKind::IntoIter => None,
        }
    }
    fn into_iter_box(self: Box<Self>) -> Option<Box<dyn DynIter>> {
        Some(Box::new(FwdExact(self.0.into_iter(), |b| b as u128)))
    }
}

pub struct BvmDs(pub BitVectorMut);
impl DynDs for BvmDs {
    fn kind(&self) -> String {
        "BitVectorMut".into()
    }
    fn len(&self) -> usize {
        self.0.len()
    }
    fn answer(&self, q: &Q) -> A {
        bv_common_answers!(self, q)
    }
    fn de_from(&self, cfg: u8, r: &mut dyn Read) -> Result<Box<dyn DynDs>, String> {
        let v: BitVectorMut = de_with(cfg, r)?;
        Ok(Box::new(BvmDs(v)))
    }
    fn de_slice(&self, cfg: u8, bytes: &[u8]) -> Result<Box<dyn DynDs>, String> {
        let v: BitVectorMut = de_slice_with(cfg, bytes)?;
        Ok(Box::new(BvmDs(v)))
    }
    common_ds!();
    fn iter_box<'a>(&'a self, kind: IterKind) -> Option<Box<dyn DynIter + 'a>> {
        match kind {
            IterKind::Iter => Some(Box::new(FwdExact(self.0.iter(), |b| b as u128))),
            IterKind::Ones => Some(ones_from(self.0.ones())),
            IterKind::Zeros => Some(zeros_from(self.0.zeros())),
            IterKind::OnesFrom(p) => Some(ones_from(self.0.ones_with_pos(p))),
            IterKind::ZerosFrom(p) => Some(zeros_from(self.0.zeros_with_pos(p))),
            IterKind::RefIntoIter | IterKind::IntoIter => None,
        }
    }
    fn into_iter_box(self: Box<Self>) -> Option<Box<dyn DynIter>> {
        Some(Box::new(FwdExact(self.0.into_iter(), |b| b as u128)))
    }
}

/// RSNarrow / RSWide have no `len()`; the wrapper remembers the length of the bit vector it was built from.
pub struct NarrowDs(pub RSNarrow, pub usize);
pub struct WideDs(pub RSWide, pub usize);

macro_rules! rs_bin_impl {
    ($wrap:ident, $ty:ty, $name:expr) => {
        impl DynDs for $wrap {
            fn kind(&self) -> String {
                $name.into()
            }
            fn len(&self) -> usize {
                self.1
            }
            fn answer(&self, q: &Q) -> A {
                match q {
                    Q::Space => A::U(Sym(self.0.space_usage_byte() as u128)),
                    Q::Get(i) => ob(self.0.get(*i)),
                    Q::Rank1(i) => ou(self.0.rank1(*i)),
                    Q::Rank0(i) => ou(self.0.rank0(*i)),
                    Q::Select1(k) => ou(self.0.select1(*k)),
                    Q::Select0(k) => ou(self.0.select0(*k)),
                    Q::CountOnes => A::U(Sym(self.0.n_ones() as u128)),
                    Q::CountZeros => A::U(Sym(<$ty>::n_zeros(&self.0) as u128)),
                    _ => A::Unsupported,
                }
            }
            fn ser_into(&self, cfg: u8, w: &mut dyn Write) -> Result<(), String> {
                ser_with(cfg, &self.0, w)
            }
            fn de_from(&self, cfg: u8, r: &mut dyn Read) -> Result<Box<dyn DynDs>, String> {
                let v: $ty = de_with(cfg, r)?;
                Ok(Box::new($wrap(v, self.1)))
            }
            fn de_slice(&self, cfg: u8, bytes: &[u8]) -> Result<Box<dyn DynDs>, String> {
                let v: $ty = de_slice_with(cfg, bytes)?;
                Ok(Box::new($wrap(v, self.1)))
            }
            fn eq_dyn(&self, other: &dyn DynDs) -> bool {
                match other.as_any().downcast_ref::<Self>() {
                    Some(o) => self.0 == o.0,
                    None => false,
                }
            }
            fn clone_box(&self) -> Box<dyn DynDs> {
                Box::new($wrap(self.0.clone(), self.1))
            }
            fn as_any(&self) -> &dyn Any {
                self
            }
            fn iter_box<'a>(&'a self, _kind: IterKind) -> Option<Box<dyn DynIter + 'a>> {
                None
            }
            fn into_iter_box(self: Box<Self>) -> Option<Box<dyn DynIter>> {
                None
            }
        }
    };
}
rs_bin_impl!(NarrowDs, RSNarrow, "RSNarrow");
rs_bin_impl!(WideDs, RSWide, "RSWide");

pub struct DaDs<const S0: bool>(pub DArray<S0>);
impl<const S0: bool> DynDs for DaDs<S0> {
    fn kind(&self) -> String {
        format!("DArray<{}>", S0)
    }
    fn len(&self) -> usize {
        self.0.len()
    }
    fn answer(&self, q: &Q) -> A {
        match q {
            Q::Len => A::U(Sym(self.0.len() as u128)),
            Q::IsEmpty => A::B(self.0.is_empty()),
            Q::Space => A::U(Sym(self.0.space_usage_byte() as u128)),
            Q::Get(i) => ob(self.0.get(*i)),
            Q::Select1(k) => ou(self.0.select1(*k)),
            Q::Select0(k) => {
                if S0 {
                    ou(self.0.select0(*k))
                } else {
                    A::Unsupported // documented panic without select0 support
                }
            }
            Q::CountOnes => A::U(Sym(self.0.count_ones() as u128)),
            Q::CountZeros => A::U(Sym(self.0.count_zeros() as u128)),
            Q::IterHash => hash_iter(self.0.iter().map(|b| b as u128)),
            Q::OnesFrom(p) => hash_iter(self.0.ones_with_pos(*p).map(|p| p as u128)),
            Q::ZerosFrom(p) => hash_iter(self.0.zeros_with_pos(*p).map(|p| p as u128)),
            _ => A::Unsupported,
        }
    }
    fn de_from(&self, cfg: u8, r: &mut dyn Read) -> Result<Box<dyn DynDs>, String> {
        let v: DArray<S0> = de_with(cfg, r)?;
        Ok(Box::new(DaDs(v)))
    }
    fn de_slice(&self, cfg: u8, bytes: &[u8]) -> Result<Box<dyn DynDs>, String> {
        let v: DArray<S0> = de_slice_with(cfg, bytes)?;
        Ok(Box::new(DaDs(v)))
    }
    common_ds!();
    fn iter_box<'a>(&'a self, kind: IterKind) -> Option<Box<dyn DynIter + 'a>> {
        match kind {
            IterKind::Iter => Some(Box::new(FwdExact(self.0.iter(), |b| b as u128))),
            IterKind::Ones => Some(ones_from(self.0.ones())),
            IterKind::Zeros => Some(zeros_from(self.0.zeros())),
            IterKind::OnesFrom(p) => Some(ones_from(self.0.ones_with_pos(p))),
            IterKind::ZerosFrom(p) => Some(zeros_from(self.0.zeros_with_pos(p))),
            IterKind::RefIntoIter | IterKind::IntoIter => None,
        }
    }
    fn into_iter_box(self: Box<Self>) -> Option<Box<dyn DynIter>> {
        None
    }
}

// ------------------------------------------------------------------------------------------------ quad vectors

pub struct QvDs(pub QVector);
impl DynDs for QvDs {
    fn kind(&self) -> String {
        "QVector".into()
    }
    fn len(&self) -> usize {
        self.0.len()
    }
    fn answer(&self, q: &Q) -> A {
        match q {
            Q::Len => A::U(Sym(self.0.len() as u128)),
            Q::IsEmpty => A::B(self.0.is_empty()),
            Q::Space => A::U(Sym(self.0.space_usage_byte() as u128)),
            Q::Get(i) => match self.0.get(*i) {
                None => A::None,
                Some(v) => A::U(Sym(v as u128)),
            },
            Q::IterHash => hash_iter(self.0.iter().map(|b| b as u128)),
            _ => A::Unsupported,
        }
    }
    fn de_from(&self, cfg: u8, r: &mut dyn Read) -> Result<Box<dyn DynDs>, String> {
        let v: QVector = de_with(cfg, r)?;
        Ok(Box::new(QvDs(v)))
    }
    fn de_slice(&self, cfg: u8, bytes: &[u8]) -> Result<Box<dyn DynDs>, String> {
        let v: QVector = de_slice_with(cfg, bytes)?;
        Ok(Box::new(QvDs(v)))
    }
    common_ds!();
    fn iter_box<'a>(&'a self, kind: IterKind) -> Option<Box<dyn DynIter + 'a>> {
        match kind {
            IterKind::Iter => Some(Box::new(FwdOnly(self.0.iter(), |b| b as u128))),
            IterKind::RefIntoIter => Some(Box::new(FwdOnly((&self.0).into_iter(), |b| b as u128))),
            _ => None,
        }
    }
    fn into_iter_box(self: Box<Self>) -> Option<Box<dyn DynIter>> {
        Some(Box::new(FwdOnly(self.0.into_iter(), |b| b as u128)))
    }
}

macro_rules! rsq_ds {
    ($wrap:ident, $ty:ty, $name:expr) => {
        pub struct $wrap(pub $ty);
        impl DynDs for $wrap {
            fn kind(&self) -> String {
                $name.into()
            }
            fn len(&self) -> usize {
                self.0.len()
            }
            fn answer(&self, q: &Q) -> A {
                match q {
                    Q::Len => A::U(Sym(self.0.len() as u128)),
                    Q::IsEmpty => A::B(self.0.is_empty()),
                    Q::Space => A::U(Sym(self.0.space_usage_byte() as u128)),
                    Q::Get(i) => match self.0.get(*i) {
                        None => A::None,
                        Some(v) => A::U(Sym(v as u128)),
                    },
                    // symbols above 3 are outside rank's documented domain (C04/C05, not decided here)
                    Q::Rank(c, i) if c.0 <= 3 => ou(self.0.rank(c.0 as u8, *i)),
                    Q::Select(c, k) if c.0 <= 255 => ou(self.0.select(c.0 as u8, *k)),
                    Q::Occs(c) => ou(self.0.occs(*c)),
                    Q::OccsSmaller(c) => ou(self.0.occs_smaller(*c)),
                    Q::IterHash => hash_iter(self.0.iter().map(|b| b as u128)),
                    _ => A::Unsupported,
                }
            }
            fn de_from(&self, cfg: u8, r: &mut dyn Read) -> Result<Box<dyn DynDs>, String> {
                let v: $ty = de_with(cfg, r)?;
                Ok(Box::new($wrap(v)))
            }
            fn de_slice(&self, cfg: u8, bytes: &[u8]) -> Result<Box<dyn DynDs>, String> {
                let v: $ty = de_slice_with(cfg, bytes)?;
                Ok(Box::new($wrap(v)))
            }
            common_ds!();
            fn iter_box<'a>(&'a self, kind: IterKind) -> Option<Box<dyn DynIter + 'a>> {
                match kind {
                    IterKind::Iter => Some(Box::new(FwdOnly(self.0.iter(), |b| b as u128))),
                    IterKind::RefIntoIter => Some(Box::new(FwdOnly((&self.0).into_iter(), |b| b as u128))),
                    _ => None,
                }
            }
            fn into_iter_box(self: Box<Self>) -> Option<Box<dyn DynIter>> {
                Some(Box::new(FwdOnly(self.0.into_iter(), |b| b as u128)))
            }
        }
    };
}
rsq_ds!(Rsq256Ds, RSQVector256, "RSQVector256");
rsq_ds!(Rsq512Ds, RSQVector512, "RSQVector512");

/// Non-tree structure kinds.
#[derive(Clone, Copy, Debug, PartialEq, Eq, PartialOrd, Ord, Serialize, Deserialize)]
pub enum Flat {
    BitVector,
    BitVectorMut,
    RSNarrow,
    RSWide,
    DArray,
    DArray0,
    QVector,
    RSQVector256,
    RSQVector512,
}
pub const ALL_FLAT: [Flat; 9] = [
    Flat::BitVector,
    Flat::BitVectorMut,
    Flat::RSNarrow,
    Flat::RSWide,
    Flat::DArray,
    Flat::DArray0,
    Flat::QVector,
    Flat::RSQVector256,
    Flat::RSQVector512,
];

impl Flat {
    pub fn is_bits(self) -> bool {
        !matches!(self, Flat::QVector | Flat::RSQVector256 | Flat::RSQVector512)
    }
}

/// Builds a bit structure from bools through the public constructors.
pub fn build_bits(kind: Flat, bits: &[bool]) -> Box<dyn DynDs> {
    let bv = || bits.iter().copied().collect::<BitVector>();
    match kind {
        Flat::BitVector => Box::new(BvDs(bv())),
        Flat::BitVectorMut => Box::new(BvmDs(bits.iter().copied().collect::<BitVectorMut>())),
        Flat::RSNarrow => Box::new(NarrowDs(RSNarrow::new(bv()), bits.len())),
        Flat::RSWide => Box::new(WideDs(RSWide::new(bv()), bits.len())),
        Flat::DArray => Box::new(DaDs::<false>(DArray::<false>::new(bv()))),
        Flat::DArray0 => Box::new(DaDs::<true>(DArray::<true>::new(bv()))),
        _ => panic!("harness bug: {kind:?} is not a bit structure"),
    }
}

/// Builds a quad structure from symbols (only the two low bits matter) through the public constructors.
pub fn build_quads(kind: Flat, syms: &[u8]) -> Box<dyn DynDs> {
    match kind {
        Flat::QVector => Box::new(QvDs(syms.iter().copied().collect::<QVector>())),
        Flat::RSQVector256 => Box::new(Rsq256Ds(syms.iter().copied().collect::<RSQVector256>())),
        Flat::RSQVector512 => Box::new(Rsq512Ds(syms.iter().copied().collect::<RSQVector512>())),
        _ => panic!("harness bug: {kind:?} is not a quad structure"),
    }
}

/// A bit vector that reached its content through a history rather than one `collect()`.
pub fn build_bits_grown(frozen: bool, zeros: usize, via_extend: bool, tail: &str, patches: &[(usize, usize, u64)]) -> Box<dyn DynDs> {
    let mut v = if via_extend {
        let mut v = BitVectorMut::new();
        v.extend_with_zeros(zeros);
        v
    } else {
        BitVectorMut::with_zeros(zeros)
    };
    let bits: Vec<bool> = tail.chars().map(|c| c == '1').collect();
    if tail.len() % 2 == 0 {
        for &b in &bits {
            v.push(b);
        }
    } else {
        v.extend(bits.iter().copied());
    }
    for &(index, len, bits) in patches {
        if index + len <= v.len() && (1..=64).contains(&len) {
            v.set_bits(index, len, if len == 64 { bits } else { bits & ((1u64 << len) - 1) });
        }
    }
    if frozen {
        Box::new(BvDs(BitVector::from(v)))
    } else {
        Box::new(BvmDs(v))
    }
}

pub fn default_flat(kind: Flat) -> Box<dyn DynDs> {
    match kind {
        Flat::BitVector => Box::new(BvDs(BitVector::default())),
        Flat::BitVectorMut => Box::new(BvmDs(BitVectorMut::default())),
        Flat::RSNarrow => Box::new(NarrowDs(RSNarrow::default(), 0)),
        Flat::RSWide => Box::new(WideDs(RSWide::default(), 0)),
        Flat::DArray => Box::new(DaDs::<false>(DArray::<false>::default())),
        Flat::DArray0 => Box::new(DaDs::<true>(DArray::<true>::default())),
        Flat::QVector => Box::new(QvDs(QVector::default())),
        Flat::RSQVector256 => Box::new(Rsq256Ds(RSQVector256::default())),
        Flat::RSQVector512 => Box::new(Rsq512Ds(RSQVector512::default())),
    }
}

/// The same value, however it came to be: as built (life 0, 1), reloaded from its serialized form (2), a clone (3),
/// or `other` (an existing value of the same concrete type with other content) overwritten by `clone_from` (4).
/// Falls back to the built value when a step is unavailable (those steps are C11's / C19's subject).
pub fn incarnate(x: Box<dyn DynDs>, life: u64, other: impl FnOnce() -> Option<Box<dyn DynDs>>) -> (Box<dyn DynDs>, &'static str) {
    use crate::core::catch;
    match life {
        2 => {
            let r = catch(|| {
                let bytes = ser_vec(x.as_ref(), 0)?;
                x.de_from(0, &mut &bytes[..])
            });
            match r {
                Ok(Ok(y)) => (y, "reloaded"),
                _ => (x, "built"),
            }
        }
        3 => match catch(|| x.clone_box()) {
            Ok(y) => (y, "clone"),
            Err(_) => (x, "built"),
        },
        4 => {
            let r = catch(|| {
                let mut dst = other()?;
                if dst.clone_from_dyn(x.as_ref()) {
                    Some(dst)
                } else {
                    None
                }
            });
            match r {
                Ok(Some(y)) => (y, "clone_from"),
                _ => (x, "built"),
            }
        }
        _ => (x, "built"),
    }
}

/// Compile-time part of C18: every public query structure is `Send + Sync`.
/// (`DynDs: Send + Sync` already forces this for everything wrapped above; this spells the list out.)
pub fn assert_send_sync_all() -> usize {
    fn ok<T: Send + Sync>() -> usize {
        1
    }
    macro_rules! trees {
        ($($a:ident),*) => { 0 $( + ok::<$a<u8>>() + ok::<$a<u16>>() + ok::<$a<u32>>() + ok::<$a<u64>>() + ok::<$a<usize>>() + ok::<$a<u128>>() )* };
    }
    macro_rules! tree_iters {
        ($($a:ident),*) => { 0 $(
            + ok::<qwt::WTIterator<u8, $a<u8>, $a<u8>>>() + ok::<qwt::WTIterator<u8, $a<u8>, &'static $a<u8>>>()
            + ok::<qwt::WTIterator<u64, $a<u64>, $a<u64>>>() + ok::<qwt::WTIterator<u64, $a<u64>, &'static $a<u64>>>()
            + ok::<qwt::WTIterator<u128, $a<u128>, $a<u128>>>() + ok::<qwt::WTIterator<u128, $a<u128>, &'static $a<u128>>>()
        )* };
    }
    trees!(QWT256, QWT512, QWT256Pfs, QWT512Pfs, HQWT256, HQWT512, HQWT256Pfs, HQWT512Pfs, WT, HWT)
        + ok::<BitVector>()
        + ok::<BitVectorMut>()
        + ok::<QVector>()
        + ok::<RSQVector256>()
        + ok::<RSQVector512>()
        + ok::<RSNarrow>()
        + ok::<RSWide>()
        + ok::<DArray<false>>()
        + ok::<DArray<true>>()
        // the builder and every public iterator type ("every public type")
        + ok::<qwt::QVectorBuilder>()
        + ok::<qwt::qvector::QVectorIterator<QVector>>()
        + ok::<qwt::qvector::QVectorIterator<&'static QVector>>()
        + ok::<qwt::bitvector::BitVectorIter<'static>>()
        + ok::<qwt::bitvector::BitVectorIntoIter>()
        + ok::<qwt::bitvector::BitVectorBitPositionsIter<'static, true>>()
        + ok::<qwt::bitvector::BitVectorBitPositionsIter<'static, false>>()
        + ok::<qwt::quadwt::huffqwt::PrefixCode>()
        + tree_iters!(QWT256, QWT512, QWT256Pfs, QWT512Pfs, HQWT256, HQWT512, HQWT256Pfs, HQWT512Pfs, WT, HWT)
}
