//! Sequence generation for the tree workloads: frequency profiles aimed at prefix-code shapes,
//! alphabets with holes and extreme values, and several arrangements.

use serde::{Deserialize, Serialize};

use crate::core::Tier;
use crate::ds::{Sym, Ty};
use crate::prng::Rng;

#[derive(Clone, Copy, Debug, PartialEq, Eq, Serialize, Deserialize)]
pub enum Arrange {
    Shuffled,
    SortedRuns,
    Periodic,
    RandomRuns,
}

/// A sequence, either written out or as (symbol, count) pairs plus an arrangement.
#[derive(Clone, Debug, PartialEq, Serialize, Deserialize)]
pub enum Seq {
    Explicit(Vec<Sym>),
    Weights {
        syms: Vec<Sym>,
        counts: Vec<u64>,
        arrange: Arrange,
        seed: u64,
    },
}

impl Seq {
    pub fn expand(&self) -> Vec<u128> {
        match self {
            Seq::Explicit(v) => v.iter().map(|s| s.0).collect(),
            Seq::Weights {
                syms,
                counts,
                arrange,
                seed,
            } => {
                let total: u64 = counts.iter().sum();
                let mut out = Vec::with_capacity(total as usize);
                match arrange {
                    Arrange::SortedRuns | Arrange::Shuffled => {
                        for (s, &c) in syms.iter().zip(counts) {
                            for _ in 0..c {
                                out.push(s.0);
                            }
                        }
                        if *arrange == Arrange::Shuffled {
                            Rng::new(*seed).shuffle(&mut out);
                        }
                    }
                    Arrange::Periodic => {
                        let mut left: Vec<u64> = counts.clone();
                        let mut remaining = total;
                        while remaining > 0 {
                            for (i, s) in syms.iter().enumerate() {
                                if left[i] > 0 {
                                    out.push(s.0);
                                    left[i] -= 1;
                                    remaining -= 1;
                                }
                            }
                        }
                    }
                    Arrange::RandomRuns => {
                        let mut rng = Rng::new(*seed);
                        let mut left: Vec<u64> = counts.clone();
                        let mut alive: Vec<usize> = (0..syms.len()).filter(|&i| left[i] > 0).collect();
                        while !alive.is_empty() {
                            let a = rng.usize_below(alive.len());
                            let i = alive[a];
                            let cap = 1 + rng.below(300);
                            let run = 1 + rng.below(left[i].min(cap));
                            for _ in 0..run {
                                out.push(syms[i].0);
                            }
                            left[i] -= run;
                            if left[i] == 0 {
                                alive.swap_remove(a);
                            }
                        }
                    }
                }
                out
            }
        }
    }

    pub fn to_explicit(&self) -> Seq {
        Seq::Explicit(self.expand().into_iter().map(Sym).collect())
    }

    pub fn len(&self) -> usize {
        match self {
            Seq::Explicit(v) => v.len(),
            Seq::Weights { counts, .. } => counts.iter().sum::<u64>() as usize,
        }
    }
}

/// Counts that force a prefix code of `levels` fragments for a `degree`-ary minimum-redundancy code:
/// every level has `degree-1` leaves and one internal node.
pub fn deep_counts(degree: u64, levels: usize) -> Vec<u64> {
    // w_1 = 1 (degree leaves), S_1 = degree; w_{k+1} > S_{k-1}; S_k = S_{k-1} + (degree-1) w_k
    let mut counts = vec![1u64; degree as usize];
    let mut s_prev2 = 0u64; // S_{k-2}
    let mut s_prev = degree; // S_{k-1}
    for _ in 1..levels {
        let w = s_prev2 + 1;
        for _ in 0..degree - 1 {
            counts.push(w);
        }
        let s = s_prev + (degree - 1) * w;
        s_prev2 = s_prev;
        s_prev = s;
    }
    counts
}

/// Length of the longest code (in fragments) of a `degree`-ary Huffman code for these counts,
/// computed independently of the library (ties broken towards the shallowest tree, so the value
/// is a lower bound of what any optimal code needs only when ties exist).
pub fn huffman_max_len(counts: &[u64], degree: usize) -> usize {
    let n = counts.len();
    if n == 0 {
        return 0;
    }
    if n <= degree {
        return 1;
    }
    // (weight, depth-below) min-heap emulated with a sorted Vec + queue (two-queue method)
    let mut leaves: Vec<(u128, usize)> = counts.iter().map(|&c| (c as u128, 0usize)).collect();
    leaves.sort();
    let mut internals: std::collections::VecDeque<(u128, usize)> = Default::default();
    let mut li = 0usize;
    let mut first = (n - 1) % (degree - 1);
    first = if first == 0 { degree } else { first + 1 };
    let mut take = first;
    loop {
        let remaining = (n - li) + internals.len();
        if remaining == 1 {
            break;
        }
        let mut w = 0u128;
        let mut d = 0usize;
        for _ in 0..take.min(remaining) {
            let use_leaf = match (leaves.get(li), internals.front()) {
                (Some(l), Some(i)) => l.0 <= i.0,
                (Some(_), None) => true,
                (None, Some(_)) => false,
                (None, None) => unreachable!(),
            };
            let (cw, cd) = if use_leaf {
                li += 1;
                leaves[li - 1]
            } else {
                internals.pop_front().unwrap()
            };
            w += cw;
            d = d.max(cd);
        }
        internals.push_back((w, d + 1));
        take = degree;
    }
    internals.front().map(|x| x.1).unwrap_or(1)
}

pub struct TreeGenCfg {
    /// fragment degree of the code this sequence is aimed at (4 quad, 2 binary)
    pub degree: u64,
    /// the structure keeps a table indexed by symbol value
    pub table_indexed: bool,
    pub ty: Ty,
    pub tier: Tier,
}

const SIZES: [usize; 24] = [
    63, 64, 65, 127, 128, 129, 255, 256, 257, 511, 512, 513, 1023, 1024, 1025, 2047, 2048, 2049, 4095, 4096, 4097,
    8191, 8192, 8193,
];

fn pick_total(rng: &mut Rng, tier: Tier) -> usize {
    let cap = match tier {
        Tier::Quick => 6000,
        Tier::Thorough => 20000,
    };
    // rare: beyond the 16-bit boundary (65536) that several packed counters and offsets live next to
    if rng.below(match tier {
        Tier::Quick => 300,
        Tier::Thorough => 100,
    }) == 0
    {
        return *rng.pick(&[65535usize, 65536, 65537, 70000, 131071, 131072, 131073]) + rng.usize_below(3) * 4099;
    }
    let r = rng.below(100);
    let n = if r < 3 {
        0
    } else if r < 20 {
        rng.urange(1, 16)
    } else if r < 45 {
        rng.urange(17, 300)
    } else if r < 75 {
        *rng.pick(&SIZES)
    } else if r < 97 {
        rng.urange(300, cap)
    } else {
        // a few long sequences: per-level counts beyond the 8192 select-hint period and several superblocks
        rng.urange(cap, 3 * cap + 2000)
    };
    n
}

/// Generates (sequence, profile name).
pub fn gen_tree_seq(rng: &mut Rng, cfg: &TreeGenCfg) -> (Seq, String) {
    let total = pick_total(rng, cfg.tier);
    if total == 0 {
        return (Seq::Explicit(vec![]), "empty".into());
    }
    let dmax_ty = cfg.ty.max().min(1 << 20) as usize + 1; // distinct symbols the type can hold (capped)
    let d_cap = dmax_ty.min(total);
    let (mut counts, profile): (Vec<u64>, &str) = match rng.below(100) {
        0..=5 => (vec![total as u64], "single"),
        6..=25 => {
            // d equiprobable symbols: everything is a tie
            let d = rng.urange(2, 40.min(d_cap.max(2))).min(d_cap.max(1));
            let c = (total / d).max(1) as u64;
            (vec![c; d], "equi")
        }
        26..=40 => {
            let r = *rng.pick(&[2u64, 3, 4]);
            let mut v = vec![];
            let mut w = 1u64;
            let mut sum = 0u64;
            while sum + w <= total as u64 && v.len() < d_cap {
                v.push(w);
                sum += w;
                w = w.saturating_mul(r);
            }
            if v.is_empty() {
                v.push(1);
            }
            (v, "geometric")
        }
        41..=52 => {
            // two or three plateaus
            let k = rng.urange(2, 3);
            let mut v = vec![];
            let mut base = 1u64;
            for _ in 0..k {
                let d = rng.urange(1, 9);
                for _ in 0..d {
                    v.push(base);
                }
                base *= rng.range(2, 7);
            }
            v.truncate(d_cap.max(1));
            let s: u64 = v.iter().sum();
            let scale = (total as u64 / s).max(1);
            (v.into_iter().map(|x| x * scale).collect(), "plateaus")
        }
        53..=62 => {
            let d = rng.urange(2, 60).min(d_cap.max(1));
            let v: Vec<u64> = (0..d).map(|k| ((total as u64) / (k as u64 + 1) / 4).max(1)).collect();
            (v, "zipf")
        }
        63..=72 => {
            // near ties: counts differ by at most one
            let d = rng.urange(2, 24).min(d_cap.max(1));
            let c = (total / d).max(2) as u64;
            (
                (0..d).map(|_| c - rng.below(2)).collect(),
                "near_ties",
            )
        }
        73..=80 => {
            // one heavy symbol and many singletons
            let d = rng.urange(1, 50).min(d_cap.saturating_sub(1).max(1));
            let mut v = vec![1u64; d];
            v.push((total as u64).saturating_sub(d as u64).max(1));
            (v, "heavy_plus_singletons")
        }
        81..=88 => {
            let max_levels = match (cfg.degree, cfg.tier) {
                (4, Tier::Quick) => 10,
                (4, Tier::Thorough) => 13,
                (_, Tier::Quick) => 18,
                (_, Tier::Thorough) => 24,
            };
            let levels = rng.urange(2, max_levels);
            (deep_counts(cfg.degree, levels), "deep")
        }
        _ => {
            let d = rng.urange(1, 300).min(d_cap.max(1));
            let m = (2 * total / d).max(1) as u64;
            ((0..d).map(|_| 1 + rng.below(m)).collect(), "random")
        }
    };
    if counts.len() > d_cap.max(1) {
        counts.truncate(d_cap.max(1));
    }
    let d = counts.len();
    // symbol values
    let ty_max = cfg.ty.max();
    let table_cap: u128 = if cfg.table_indexed {
        let c: u128 = match (cfg.tier, rng.below(40)) {
            (_, 0) => 1 << 18,
            (Tier::Thorough, 1) => 1 << 22,
            (_, 2..=9) => 1 << 12,
            _ => 1 << 9,
        };
        c.min(ty_max)
    } else {
        ty_max
    };
    let table_cap = table_cap.max(d as u128 - 1);
    let mapping = rng.below(100);
    let mut vals: Vec<u128> = if mapping < 35 || table_cap < d as u128 + 2 {
        (0..d as u128).collect()
    } else if mapping < 55 {
        // holes below the cap
        let mut set = std::collections::BTreeSet::new();
        let bl = 128 - table_cap.leading_zeros() as u64; // >= 1 here
        while set.len() < d {
            let bits = rng.range(1, bl);
            let mask = if bits >= 128 { u128::MAX } else { (1u128 << bits) - 1 };
            let v = rng.next_u128() & mask;
            set.insert(if table_cap == u128::MAX { v } else { v % (table_cap + 1) });
        }
        set.into_iter().collect()
    } else if mapping < 70 {
        // top of the range
        (0..d as u128).map(|k| table_cap - k).collect()
    } else if mapping < 76 && table_cap >= (1 << 9) {
        // classes of symbols that agree in their low bits (c, c + 2^b, c + 2*2^b, ...): whatever is keyed by a
        // truncated symbol confuses them
        let b = *rng.pick(&[8u32, 16, 20, 24, 32, 40]);
        let step: u128 = if table_cap / 2 >= (1u128 << b) { 1u128 << b } else { 1u128 << 8 };
        let bases = rng.urange(1, 4) as u128;
        let mut set = std::collections::BTreeSet::new();
        let mut k: u128 = 0;
        while set.len() < d {
            let v = (k % bases) + (k / bases) * step;
            if v <= table_cap {
                set.insert(v);
            } else {
                // out of room in this class layout: fall back to dense values
                let mut x = 0u128;
                while set.len() < d {
                    set.insert(x);
                    x += 1;
                }
            }
            k += 1;
        }
        set.into_iter().collect()
    } else if mapping < 85 {
        // powers of four and their neighbours, clipped
        let mut set = std::collections::BTreeSet::new();
        let mut p: u128 = 1;
        while set.len() < d && p <= table_cap {
            for v in [p.saturating_sub(1), p, p + 1] {
                if v <= table_cap && set.len() < d {
                    set.insert(v);
                }
            }
            p = p.saturating_mul(4);
            if p == u128::MAX {
                break;
            }
        }
        let mut k = 0u128;
        while set.len() < d {
            set.insert(k);
            k += 1;
        }
        set.into_iter().collect()
    } else {
        // sparse evenly spread
        let step = (table_cap / d as u128).max(1);
        (0..d as u128).map(|k| k * step).collect()
    };
    // which symbol gets which count: ascending, descending or shuffled
    match rng.below(3) {
        0 => {}
        1 => vals.reverse(),
        _ => rng.shuffle(&mut vals),
    }
    let arrange = *rng.pick(&[
        Arrange::Shuffled,
        Arrange::Shuffled,
        Arrange::SortedRuns,
        Arrange::Periodic,
        Arrange::RandomRuns,
    ]);
    (
        Seq::Weights {
            syms: vals.into_iter().map(Sym).collect(),
            counts,
            arrange,
            seed: rng.next_u64(),
        },
        profile.to_string(),
    )
}


/// Large inputs next to the numeric boundaries small sequences cannot reach: more than 65 536 elements,
/// more than 65 536 occurrences of one symbol, more than 8192 occurrences of a 2-bit digit in a level,
/// alphabets of 255/256/257 and 65 535/65 536/65 537 symbols, long sorted runs.
pub fn gen_big_tree_seq(rng: &mut Rng, cfg: &TreeGenCfg) -> (Seq, String) {
    let n = *rng.pick(&[65535usize, 65536, 65537, 70001, 100000, 131071, 131072, 131073, 140000, 200000, 262143, 262144, 262145])
        + rng.usize_below(2) * 2053;
    let ty_cap = cfg.ty.max().min(if cfg.table_indexed { 1 << 17 } else { u128::MAX }) as u128;
    let d_max = (ty_cap.min(1 << 20) as usize).saturating_add(1).min(n);
    // code tables with more than 65 536 entries need a wide element type: give that shape real weight there
    let wide_table = cfg.table_indexed && cfg.ty.bits() >= 32;
    let pick = if wide_table && rng.below(100) < 35 { 5 } else { rng.below(8) };
    let (counts, profile): (Vec<u64>, &str) = match pick {
        0 => (vec![n as u64], "big_single"),
        1 => {
            let a = (n as u64) / 2 + rng.below(3);
            (vec![a, n as u64 - a], "big_two_even")
        }
        2 => {
            let rare = 1 + rng.below(200);
            (vec![n as u64 - rare, rare], "big_two_skewed")
        }
        3 => {
            // one symbol beyond 65536 occurrences, the rest singletons or small
            let d = rng.urange(2, 300).min(d_max);
            let mut v: Vec<u64> = (1..d).map(|_| 1 + rng.below(40)).collect();
            let s: u64 = v.iter().sum();
            v.push((n as u64).saturating_sub(s).max(1));
            (v, "big_heavy")
        }
        4 => {
            let d = (*rng.pick(&[3usize, 4, 5, 16, 17, 64, 255, 256, 257])).min(d_max);
            (vec![(n / d).max(1) as u64; d], "big_uniform")
        }
        5 => {
            // very many distinct symbols
            let d = (*rng.pick(&[4096usize, 65535, 65536, 65537, 100000, 131072])).min(d_max).min(n);
            (vec![(n / d).max(1) as u64; d], "big_many_symbols")
        }
        6 => {
            let d = rng.urange(20, 2000).min(d_max);
            ((0..d).map(|k| ((n as u64) / (k as u64 + 1) / 8).max(1)).collect(), "big_zipf")
        }
        _ => {
            let levels = if cfg.degree == 4 { rng.urange(9, 11) } else { rng.urange(17, 21) };
            let mut v = deep_counts(cfg.degree, levels);
            v.truncate(d_max.max(1));
            (v, "big_deep")
        }
    };
    let d = counts.len();
    let mut vals: Vec<u128> = match rng.below(3) {
        0 => (0..d as u128).collect(),
        1 => (0..d as u128).map(|k| ty_cap - k.min(ty_cap)).collect(),
        _ => {
            let step = (ty_cap / d as u128).max(1);
            (0..d as u128).map(|k| (k * step).min(ty_cap)).collect()
        }
    };
    vals.sort();
    vals.dedup();
    let counts = counts[..vals.len()].to_vec();
    if rng.bool() {
        vals.reverse();
    }
    let arrange = *rng.pick(&[Arrange::Shuffled, Arrange::SortedRuns, Arrange::RandomRuns, Arrange::Periodic]);
    (
        Seq::Weights {
            syms: vals.into_iter().map(Sym).collect(),
            counts,
            arrange,
            seed: rng.next_u64(),
        },
        profile.to_string(),
    )
}

/// `n` bits assembled word by word from a palette of structured 64-bit words (empty, full, single bit at either
/// end, alternating bits / bytes / halves, one hole in a full word, ...) with a few random words in between:
/// the patterns on which word-level select / rank tricks (broadword, pdep, byte-wise prefix sums) differ from
/// the bit-by-bit definition, repeated often enough to fill lines and superblocks with the same pattern.
pub fn gen_word_pattern_bits(rng: &mut Rng, n: usize) -> Vec<bool> {
    const PALETTE: [u64; 16] = [
        0,
        u64::MAX,
        1,
        1 << 63,
        0x8000_0000_0000_0001,
        0xAAAA_AAAA_AAAA_AAAA,
        0x5555_5555_5555_5555,
        0x00FF_00FF_00FF_00FF,
        0xFF00_FF00_FF00_FF00,
        0x0000_0000_FFFF_FFFF,
        0xFFFF_FFFF_0000_0000,
        0x7FFF_FFFF_FFFF_FFFF,
        0xFFFF_FFFF_FFFF_FFFE,
        0xFFFF_FFFE_FFFF_FFFF,
        0x0101_0101_0101_0101,
        0x8080_8080_8080_8080,
    ];
    // a run uses 1..3 palette words in rotation for a stretch of words, then switches
    let mut out = Vec::with_capacity(n);
    while out.len() < n {
        let k = rng.urange(1, 3);
        let chosen: Vec<u64> = (0..k).map(|_| if rng.chance(1, 8) { rng.next_u64() } else { *rng.pick(&PALETTE) }).collect();
        let stretch = match rng.below(4) {
            0 => rng.urange(1, 4),
            1 => 8 * rng.urange(1, 4),   // whole 512-bit lines
            2 => 64 * rng.urange(1, 2),  // whole 4096-bit superblocks
            _ => rng.urange(4, 40),
        };
        for w in 0..stretch {
            let word = chosen[w % k];
            for b in 0..64 {
                if out.len() == n {
                    break;
                }
                out.push(word >> b & 1 == 1);
            }
        }
    }
    out
}

/// `n` quad symbols assembled in chunks of 64 (one `u128` half-word of a line) from structured patterns: one symbol
/// throughout, two alternating, one odd symbol at a chunk edge or in the middle, the four symbols in rotation,
/// random; stretches of the same pattern fill whole 256/512-symbol blocks and 2048/4096-symbol superblocks.
pub fn gen_word_pattern_quads(rng: &mut Rng, n: usize) -> Vec<u8> {
    let mut out = Vec::with_capacity(n);
    while out.len() < n {
        let a = rng.below(4) as u8;
        let b = rng.below(4) as u8;
        let style = rng.below(7);
        let odd_at = *rng.pick(&[0usize, 1, 31, 32, 62, 63]);
        let stretch = match rng.below(4) {
            0 => rng.urange(1, 3),
            1 => 4 * rng.urange(1, 4),   // whole 256-symbol blocks
            2 => 32 * rng.urange(1, 3),  // whole 2048-symbol superblocks
            _ => rng.urange(3, 20),
        };
        for _ in 0..stretch {
            for i in 0..64usize {
                if out.len() == n {
                    break;
                }
                out.push(match style {
                    0 => a,
                    1 => {
                        if i % 2 == 0 {
                            a
                        } else {
                            b
                        }
                    }
                    2 => {
                        if i == odd_at {
                            b
                        } else {
                            a
                        }
                    }
                    3 => (i % 4) as u8,
                    4 => ((i / 16) % 4) as u8,
                    5 => {
                        if i < 32 {
                            a
                        } else {
                            b
                        }
                    }
                    _ => rng.below(4) as u8,
                });
            }
        }
    }
    out
}
