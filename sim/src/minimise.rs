//! Greedy shrinking of a violating case while the same signature persists.

use std::time::{Duration, Instant};

use crate::cases::Case;
use crate::core::Sig;
use crate::ds::{Path, Sym};
use crate::gen::Seq;
use crate::sup::reproduces;
use crate::trees::{explicit_orders, OrderSpec, TreeCase};

fn tree_candidates(c: &TreeCase) -> Vec<TreeCase> {
    let mut out = vec![];
    // a single construction
    if c.orders.len() > 1 {
        for o in &c.orders {
            let mut x = c.clone();
            x.orders = vec![o.clone()];
            out.push(x);
        }
    }
    // simpler orders
    for (i, (o1, o2)) in c.orders.iter().enumerate() {
        if *o1 != OrderSpec::Canonical {
            let mut x = c.clone();
            x.orders[i].0 = OrderSpec::Canonical;
            out.push(x);
        }
        if *o2 != OrderSpec::Canonical {
            let mut x = c.clone();
            x.orders[i].1 = OrderSpec::Canonical;
            out.push(x);
        }
    }
    if c.path != Path::New {
        let mut x = c.clone();
        x.path = Path::New;
        out.push(x);
    }
    match &c.seq {
        Seq::Weights {
            syms,
            counts,
            arrange,
            seed,
        } => {
            let d = syms.len();
            // drop half / one symbol
            if d > 1 {
                for (a, b) in [(0, d / 2), (d / 2, d)] {
                    let mut x = c.clone();
                    x.seq = Seq::Weights {
                        syms: syms[a..b].to_vec(),
                        counts: counts[a..b].to_vec(),
                        arrange: *arrange,
                        seed: *seed,
                    };
                    out.push(x);
                }
                if d <= 64 {
                    for i in 0..d {
                        let mut s = syms.clone();
                        let mut k = counts.clone();
                        s.remove(i);
                        k.remove(i);
                        let mut x = c.clone();
                        x.seq = Seq::Weights {
                            syms: s,
                            counts: k,
                            arrange: *arrange,
                            seed: *seed,
                        };
                        out.push(x);
                    }
                }
            }
            // smaller counts
            if counts.iter().any(|&k| k > 1) {
                let mut x = c.clone();
                x.seq = Seq::Weights {
                    syms: syms.clone(),
                    counts: counts.iter().map(|&k| (k / 2).max(1)).collect(),
                    arrange: *arrange,
                    seed: *seed,
                };
                out.push(x);
                let mut x = c.clone();
                x.seq = Seq::Weights {
                    syms: syms.clone(),
                    counts: counts.iter().map(|&k| k.min(1)).collect(),
                    arrange: *arrange,
                    seed: *seed,
                };
                out.push(x);
            }
            // written out, once it is small enough to be worth deleting single elements
            if c.seq.len() <= 4096 {
                let mut x = c.clone();
                x.seq = c.seq.to_explicit();
                out.push(x);
            }
        }
        Seq::Explicit(v) => {
            let n = v.len();
            let mut chunk = n / 2;
            while chunk >= 1 {
                let mut start = 0;
                while start < n {
                    let end = (start + chunk).min(n);
                    let mut w = v[..start].to_vec();
                    w.extend_from_slice(&v[end..]);
                    let mut x = c.clone();
                    x.seq = Seq::Explicit(w);
                    out.push(x);
                    start = end;
                }
                if chunk == 1 || out.len() > 4000 {
                    break;
                }
                chunk /= 2;
            }
            // renumber symbols downwards
            let mut distinct: Vec<u128> = v.iter().map(|s| s.0).collect();
            distinct.sort();
            distinct.dedup();
            if distinct.iter().enumerate().any(|(i, &s)| s != i as u128) {
                let map: std::collections::BTreeMap<u128, u128> =
                    distinct.iter().enumerate().map(|(i, &s)| (s, i as u128)).collect();
                let mut x = c.clone();
                x.seq = Seq::Explicit(v.iter().map(|s| Sym(map[&s.0])).collect());
                // explicit orders refer to symbol values: renumber them as well
                for (o1, o2) in x.orders.iter_mut() {
                    for o in [o1, o2] {
                        if let OrderSpec::Explicit(l) = o {
                            for e in l.iter_mut() {
                                if let Some(&m) = map.get(&(*e as u128)) {
                                    *e = m as usize;
                                }
                            }
                        }
                    }
                }
                out.push(x);
            }
        }
    }
    out
}

pub fn candidates(case: &Case) -> Vec<Case> {
    match case {
        Case::Tree(c) => tree_candidates(c).into_iter().map(Case::Tree).collect(),
    }
}

fn size(case: &Case) -> usize {
    serde_json::to_string(case).map(|s| s.len()).unwrap_or(usize::MAX)
}

pub fn minimise(case: &Case, sig: &Sig, budget: Duration) -> Case {
    let t0 = Instant::now();
    let mut best = match case {
        Case::Tree(c) => {
            let e = Case::Tree(explicit_orders(c));
            if reproduces(&e, sig) {
                e
            } else {
                case.clone()
            }
        }
    };
    if !reproduces(&best, sig) {
        return best;
    }
    loop {
        let mut improved = false;
        for cand in candidates(&best) {
            if t0.elapsed() > budget {
                return best;
            }
            if size(&cand) < size(&best) && reproduces(&cand, sig) {
                best = cand;
                improved = true;
                break;
            }
        }
        if !improved {
            return best;
        }
    }
}

/// `qsim minimise <in.json> <out.json>`
pub fn minimise_main(inp: &str, outp: &str) -> i32 {
    crate::core::install_quiet_panic_hook();
    let s = std::fs::read_to_string(inp).expect("read");
    let v: serde_json::Value = serde_json::from_str(&s).expect("parse");
    let case: Case = serde_json::from_value(v["case"].clone()).expect("case");
    let sig: Sig = serde_json::from_value(v["sig"].clone()).expect("sig");
    let budget = std::env::var("QSIM_MIN_BUDGET_S")
        .ok()
        .and_then(|s| s.parse::<u64>().ok())
        .unwrap_or(25);
    let best = minimise(&case, &sig, Duration::from_secs(budget));
    std::fs::write(outp, serde_json::to_string(&best).unwrap()).expect("write");
    0
}
