//! Greedy shrinking of a violating case while the same signature persists.

use std::time::{Duration, Instant};

use crate::cases::Case;
use crate::core::Sig;
use crate::ds::{Path, Sym};
use crate::gen::Seq;
use crate::sup::reproduces;
use crate::trees::{explicit_orders, OrderSpec, TreeCase};

fn tree_candidates(c: &TreeCase) -> Vec<TreeCase> {
    let mut out = vec![];
    // a single construction
    if c.orders.len() > 1 {
        for o in &c.orders {
            let mut x = c.clone();
            x.orders = vec![o.clone()];
            out.push(x);
        }
    }
    // simpler orders
    for (i, (o1, o2)) in c.orders.iter().enumerate() {
        if *o1 != OrderSpec::Canonical {
            let mut x = c.clone();
            x.orders[i].0 = OrderSpec::Canonical;
            out.push(x);
        }
        if *o2 != OrderSpec::Canonical {
            let mut x = c.clone();
            x.orders[i].1 = OrderSpec::Canonical;
            out.push(x);
        }
    }
    if c.path != Path::New {
        let mut x = c.clone();
        x.path = Path::New;
        out.push(x);
    }
    match &c.seq {
        Seq::Weights {
            syms,
            counts,
            arrange,
            seed,
        } => {
            let d = syms.len();
            // drop half / one symbol
            if d > 1 {
                for (a, b) in [(0, d / 2), (d / 2, d)] {
                    let mut x = c.clone();
                    x.seq = Seq::Weights {
                        syms: syms[a..b].to_vec(),
                        counts: counts[a..b].to_vec(),
                        arrange: *arrange,
                        seed: *seed,
                    };
                    out.push(x);
                }
                if d <= 64 {
                    for i in 0..d {
                        let mut s = syms.clone();
                        let mut k = counts.clone();
                        s.remove(i);
                        k.remove(i);
                        let mut x = c.clone();
                        x.seq = Seq::Weights {
                            syms: s,
                            counts: k,
                            arrange: *arrange,
                            seed: *seed,
                        };
                        out.push(x);
                    }
                }
            }
            // smaller counts
            if counts.iter().any(|&k| k > 1) {
                let mut x = c.clone();
                x.seq = Seq::Weights {
                    syms: syms.clone(),
                    counts: counts.iter().map(|&k| (k / 2).max(1)).collect(),
                    arrange: *arrange,
                    seed: *seed,
                };
                out.push(x);
                let mut x = c.clone();
                x.seq = Seq::Weights {
                    syms: syms.clone(),
                    counts: counts.iter().map(|&k| k.min(1)).collect(),
                    arrange: *arrange,
                    seed: *seed,
                };
                out.push(x);
            }
            // written out, once it is small enough to be worth deleting single elements
            if c.seq.len() <= 4096 {
                let mut x = c.clone();
                x.seq = c.seq.to_explicit();
                out.push(x);
            }
        }
        Seq::Explicit(v) => {
            let n = v.len();
            let mut chunk = n / 2;
            while chunk >= 1 {
                let mut start = 0;
                while start < n {
                    let end = (start + chunk).min(n);
                    let mut w = v[..start].to_vec();
                    w.extend_from_slice(&v[end..]);
                    let mut x = c.clone();
                    x.seq = Seq::Explicit(w);
                    out.push(x);
                    start = end;
                }
                if chunk == 1 || out.len() > 4000 {
                    break;
                }
                chunk /= 2;
            }
            // renumber symbols downwards
            let mut distinct: Vec<u128> = v.iter().map(|s| s.0).collect();
            distinct.sort();
            distinct.dedup();
            if distinct.iter().enumerate().any(|(i, &s)| s != i as u128) {
                let map: std::collections::BTreeMap<u128, u128> =
                    distinct.iter().enumerate().map(|(i, &s)| (s, i as u128)).collect();
                let mut x = c.clone();
                x.seq = Seq::Explicit(v.iter().map(|s| Sym(map[&s.0])).collect());
                // explicit orders refer to symbol values: renumber them as well
                for (o1, o2) in x.orders.iter_mut() {
                    for o in [o1, o2] {
                        if let OrderSpec::Explicit(l) = o {
                            for e in l.iter_mut() {
                                if let Some(&m) = map.get(&(*e as u128)) {
                                    *e = m as usize;
                                }
                            }
                        }
                    }
                }
                out.push(x);
            }
        }
    }
    out
}

fn seq_candidates(seq: &Seq) -> Vec<Seq> {
    let mut out = vec![];
    match seq {
        Seq::Weights { syms, counts, arrange, seed } => {
            let d = syms.len();
            if d > 1 {
                for (a, b) in [(0, d / 2), (d / 2, d)] {
                    out.push(Seq::Weights { syms: syms[a..b].to_vec(), counts: counts[a..b].to_vec(), arrange: *arrange, seed: *seed });
                }
            }
            if counts.iter().any(|&k| k > 1) {
                out.push(Seq::Weights { syms: syms.clone(), counts: counts.iter().map(|&k| (k / 2).max(1)).collect(), arrange: *arrange, seed: *seed });
            }
            if seq.len() <= 4096 {
                out.push(seq.to_explicit());
            }
        }
        Seq::Explicit(v) => {
            let n = v.len();
            let mut chunk = n / 2;
            while chunk >= 1 {
                let mut start = 0;
                while start < n {
                    let end = (start + chunk).min(n);
                    let mut w = v[..start].to_vec();
                    w.extend_from_slice(&v[end..]);
                    out.push(Seq::Explicit(w));
                    start = end;
                }
                if chunk == 1 || out.len() > 2000 {
                    break;
                }
                chunk /= 2;
            }
        }
    }
    out
}

fn string_candidates(s: &str) -> Vec<String> {
    let n = s.len();
    let mut out = vec![];
    let mut chunk = n / 2;
    while chunk >= 1 {
        let mut start = 0;
        while start < n {
            let end = (start + chunk).min(n);
            out.push(format!("{}{}", &s[..start], &s[end..]));
            start = end;
        }
        if chunk == 1 || out.len() > 1500 {
            break;
        }
        chunk /= 2;
    }
    out
}

fn vec_candidates<T: Clone>(v: &[T]) -> Vec<Vec<T>> {
    let n = v.len();
    let mut out = vec![];
    let mut chunk = n / 2;
    while chunk >= 1 {
        let mut start = 0;
        while start < n {
            let end = (start + chunk).min(n);
            let mut w = v[..start].to_vec();
            w.extend_from_slice(&v[end..]);
            out.push(w);
            start = end;
        }
        if chunk == 1 || out.len() > 1500 {
            break;
        }
        chunk /= 2;
    }
    out
}

fn spec_candidates(spec: &crate::spec::Spec) -> Vec<crate::spec::Spec> {
    use crate::spec::Spec;
    match spec {
        Spec::Tree { alias, ty, path, seq, orders } => seq_candidates(seq)
            .into_iter()
            .map(|s| Spec::Tree { alias: *alias, ty: *ty, path: *path, seq: s, orders: *orders })
            .collect(),
        Spec::Bits { kind, bits } => string_candidates(bits).into_iter().map(|b| Spec::Bits { kind: *kind, bits: b }).collect(),
        Spec::Quads { kind, syms } => vec_candidates(syms).into_iter().map(|s| Spec::Quads { kind: *kind, syms: s }).collect(),
        _ => vec![],
    }
}

fn plan_candidates(plan: &crate::simdisk::DiskPlan) -> Vec<crate::simdisk::DiskPlan> {
    let mut out = vec![];
    for k in plan.write_faults.keys() {
        let mut p = plan.clone();
        p.write_faults.remove(k);
        out.push(p);
    }
    for k in plan.read_faults.keys() {
        let mut p = plan.clone();
        p.read_faults.remove(k);
        out.push(p);
    }
    if plan.bufwriter.is_some() {
        let mut p = plan.clone();
        p.bufwriter = None;
        out.push(p);
    }
    if plan.bufreader.is_some() {
        let mut p = plan.clone();
        p.bufreader = None;
        out.push(p);
    }
    if plan.crash.is_some() {
        let mut p = plan.clone();
        p.crash = None;
        out.push(p);
    }
    out
}

pub fn candidates(case: &Case) -> Vec<Case> {
    match case {
        Case::Tree(c) => tree_candidates(c).into_iter().map(Case::Tree).collect(),
        Case::Bvm(c) => {
            let mut out = vec![];
            for ops in vec_candidates(&c.ops) {
                let mut x = c.clone();
                x.ops = ops;
                out.push(Case::Bvm(x));
            }
            match &c.init {
                crate::bvm::Init::New => {}
                crate::bvm::Init::FromBools(s) => {
                    for b in string_candidates(s).into_iter().take(40) {
                        let mut x = c.clone();
                        x.init = crate::bvm::Init::FromBools(b);
                        out.push(Case::Bvm(x));
                    }
                }
                crate::bvm::Init::WithZeros(k) if *k > 0 => {
                    for k2 in [k / 2, k - 1] {
                        let mut x = c.clone();
                        x.init = crate::bvm::Init::WithZeros(k2);
                        out.push(Case::Bvm(x));
                    }
                }
                _ => {
                    let mut x = c.clone();
                    x.init = crate::bvm::Init::New;
                    out.push(Case::Bvm(x));
                }
            }
            for (i, op) in c.ops.iter().enumerate() {
                if let crate::bvm::Op::Persist { cfg, plan } = op {
                    for p in plan_candidates(plan) {
                        let mut x = c.clone();
                        x.ops[i] = crate::bvm::Op::Persist { cfg: *cfg, plan: p };
                        out.push(Case::Bvm(x));
                    }
                }
                if let crate::bvm::Op::ExtendZeros(k) = op {
                    if *k > 1 {
                        let mut x = c.clone();
                        x.ops[i] = crate::bvm::Op::ExtendZeros(k / 2);
                        out.push(Case::Bvm(x));
                    }
                }
                if let crate::bvm::Op::ExtendBools(s) = op {
                    if s.len() > 1 {
                        let mut x = c.clone();
                        x.ops[i] = crate::bvm::Op::ExtendBools(s[..s.len() / 2].to_string());
                        out.push(Case::Bvm(x));
                    }
                }
            }
            out
        }
        Case::Iter(c) => {
            let mut out = vec![];
            for calls in vec_candidates(&c.calls) {
                let mut x = c.clone();
                x.calls = calls;
                out.push(Case::Iter(x));
            }
            match &c.container {
                crate::iters::Container::Tree { alias, ty, seq, orders } => {
                    for s in seq_candidates(seq) {
                        let mut x = c.clone();
                        x.container = crate::iters::Container::Tree { alias: *alias, ty: *ty, seq: s, orders: *orders };
                        out.push(Case::Iter(x));
                    }
                }
                crate::iters::Container::Bits { kind, bits } => {
                    for b in string_candidates(bits) {
                        let mut x = c.clone();
                        x.container = crate::iters::Container::Bits { kind: *kind, bits: b };
                        out.push(Case::Iter(x));
                    }
                }
                crate::iters::Container::Quads { kind, syms } => {
                    for s in vec_candidates(syms) {
                        let mut x = c.clone();
                        x.container = crate::iters::Container::Quads { kind: *kind, syms: s };
                        out.push(Case::Iter(x));
                    }
                }
                crate::iters::Container::BitsGrown { frozen, zeros, via_extend, tail, patches } => {
                    for t in string_candidates(tail) {
                        let mut x = c.clone();
                        x.container = crate::iters::Container::BitsGrown { frozen: *frozen, zeros: *zeros, via_extend: *via_extend, tail: t, patches: patches.clone() };
                        out.push(Case::Iter(x));
                    }
                    for z in [0, *zeros / 2, zeros.saturating_sub(512), zeros.saturating_sub(1)] {
                        if z < *zeros {
                            let mut x = c.clone();
                            x.container = crate::iters::Container::BitsGrown { frozen: *frozen, zeros: z, via_extend: *via_extend, tail: tail.clone(), patches: patches.clone() };
                            out.push(Case::Iter(x));
                        }
                    }
                }
                crate::iters::Container::TreeDefault { .. } | crate::iters::Container::FlatDefault { .. } => {}
            }
            out
        }
        Case::Qvb(c) => {
            let mut out = vec![];
            for ops in vec_candidates(&c.ops) {
                let mut x = c.clone();
                x.ops = ops;
                out.push(Case::Qvb(x));
            }
            for (i, op) in c.ops.iter().enumerate() {
                if let crate::qvb::QOp::Extend(ty, vals) = op {
                    for v in vec_candidates(vals).into_iter().take(30) {
                        let mut x = c.clone();
                        x.ops[i] = crate::qvb::QOp::Extend(*ty, v);
                        out.push(Case::Qvb(x));
                    }
                }
            }
            match &c.init {
                crate::qvb::QInit::BuilderFromIter(ty, vals) => {
                    for v in vec_candidates(vals) {
                        let mut x = c.clone();
                        x.init = crate::qvb::QInit::BuilderFromIter(*ty, v);
                        out.push(Case::Qvb(x));
                    }
                }
                crate::qvb::QInit::VectorFromIter(ty, vals) => {
                    for v in vec_candidates(vals) {
                        let mut x = c.clone();
                        x.init = crate::qvb::QInit::VectorFromIter(*ty, v);
                        out.push(Case::Qvb(x));
                    }
                }
                _ => {}
            }
            out
        }
        Case::Ser(c) => {
            let mut out = vec![];
            if let Some(p) = &c.plan {
                for q in plan_candidates(p) {
                    let mut x = c.clone();
                    x.plan = Some(q);
                    out.push(Case::Ser(x));
                }
                let mut x = c.clone();
                x.plan = None;
                out.push(Case::Ser(x));
            }
            for s in spec_candidates(&c.spec) {
                let mut x = c.clone();
                x.spec = s;
                out.push(Case::Ser(x));
            }
            if c.n_queries > 4 {
                let mut x = c.clone();
                x.n_queries = c.n_queries / 2;
                out.push(Case::Ser(x));
            }
            out
        }
        Case::Pf(c) => {
            let mut out = vec![];
            for s in seq_candidates(&c.seq) {
                let mut x = c.clone();
                x.seq = s;
                out.push(Case::Pf(x));
            }
            if c.prob > 0 {
                let mut x = c.clone();
                x.prob = 0;
                out.push(Case::Pf(x));
                for k in 0..8 {
                    if c.kinds >> k & 1 == 1 && c.kinds.count_ones() > 1 {
                        let mut x = c.clone();
                        x.kinds = c.kinds & !(1 << k);
                        out.push(Case::Pf(x));
                    }
                }
            }
            out
        }
        Case::Miri(_) => vec![],
        Case::Thr(c) => {
            let mut out = vec![];
            if c.n_queries > 3 {
                let mut x = c.clone();
                x.n_queries = c.n_queries * 2 / 3;
                out.push(Case::Thr(x));
            }
            if c.threads > 2 {
                let mut x = c.clone();
                x.threads = c.threads - 1;
                out.push(Case::Thr(x));
            }
            for s in spec_candidates(&c.spec).into_iter().take(24) {
                let mut x = c.clone();
                x.spec = s;
                out.push(Case::Thr(x));
            }
            out
        }
    }
}

fn size(case: &Case) -> usize {
    serde_json::to_string(case).map(|s| s.len()).unwrap_or(usize::MAX)
}

pub fn minimise(case: &Case, sig: &Sig, budget: Duration) -> Case {
    let t0 = Instant::now();
    let mut best = match case {
        Case::Tree(c) => {
            let e = Case::Tree(explicit_orders(c));
            if reproduces(&e, sig) {
                e
            } else {
                case.clone()
            }
        }
        other => other.clone(),
    };
    if !reproduces(&best, sig) {
        // not deterministic under fixed simulator choices: allow several tries per candidate
        std::env::set_var("QSIM_REPRO_TRIES", "30");
        if !reproduces(&best, sig) {
            return best;
        }
    }
    loop {
        let mut improved = false;
        for cand in candidates(&best) {
            if t0.elapsed() > budget {
                return best;
            }
            if size(&cand) < size(&best) && reproduces(&cand, sig) {
                best = cand;
                improved = true;
                break;
            }
        }
        if !improved {
            return best;
        }
    }
}

/// `qsim minimise <in.json> <out.json>`
pub fn minimise_main(inp: &str, outp: &str) -> i32 {
    crate::core::install_quiet_panic_hook();
    let s = std::fs::read_to_string(inp).expect("read");
    let v: serde_json::Value = serde_json::from_str(&s).expect("parse");
    let case: Case = serde_json::from_value(v["case"].clone()).expect("case");
    let sig: Sig = serde_json::from_value(v["sig"].clone()).expect("sig");
    if !matches!(case, Case::Miri(_)) {
        crate::core::limit_memory();
    }
    let budget = std::env::var("QSIM_MIN_BUDGET_S")
        .ok()
        .and_then(|s| s.parse::<u64>().ok())
        .unwrap_or(25);
    let best = minimise(&case, &sig, Duration::from_secs(budget));
    std::fs::write(outp, serde_json::to_string(&best).unwrap()).expect("write");
    0
}
