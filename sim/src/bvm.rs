//! C08: a mutable bit vector under arbitrary operation histories with lifecycle events
//! (clone, freeze/thaw, collect, persist + restart through the simulated disk), against `Vec<bool>`.

use qwt::{AccessBin, BitVector, BitVectorMut};
use serde::{Deserialize, Serialize};

use crate::core::{catch, panic_kind, FaultySource, Hinted, RunOut, Sig, SourceFault, Tier, HINT_STYLES, SOURCE_FAULT_MARK};
use crate::ds::{de_with, ser_with};
use crate::prng::{stream, Digest, Rng};
use crate::simdisk::{gen_plan, persist, reload, DiskPlan};

/// Bits written as a string of '0'/'1' (compact and readable in replay files).
fn bits_to_string(b: &[bool]) -> String {
    b.iter().map(|&x| if x { '1' } else { '0' }).collect()
}
fn string_to_bits(s: &str) -> Vec<bool> {
    s.chars().map(|c| c == '1').collect()
}

#[derive(Clone, Debug, PartialEq, Serialize, Deserialize)]
pub enum Init {
    New,
    WithCapacity(usize),
    WithZeros(usize),
    FromBools(String),
    FromPositions(Vec<usize>),
}

#[derive(Clone, Debug, PartialEq, Serialize, Deserialize)]
pub enum Op {
    Push(bool),
    AppendBits { bits: u64, len: usize },
    ExtendZeros(usize),
    Set(usize, bool),
    SetBits { index: usize, len: usize, bits: u64 },
    ExtendBools(String),
    ExtendPositions(Vec<usize>),
    ShrinkToFit,
    /// continue the history on a clone
    Clone,
    /// `dst.clone_from(&x)` into an existing vector with these bits; continue on `dst`
    CloneFrom(String),
    /// `extend` with booleans from a source that fails (panic caught, the vector stays in use) or ends early
    ExtendBoolsFaulty(String, SourceFault),
    /// the same with positions
    ExtendPositionsFaulty(Vec<usize>, SourceFault),
    /// BitVectorMut -> BitVector -> BitVectorMut
    FreezeThaw,
    /// iter().collect::<BitVectorMut>()
    IterCollect,
    /// into_iter().collect::<BitVectorMut>()
    IntoIterCollect,
    /// serialize to the simulated disk, sync, optionally crash, reload under retryable faults, continue on the reloaded value
    Persist { cfg: u8, plan: DiskPlan },
}

#[derive(Clone, Debug, PartialEq, Serialize, Deserialize)]
pub struct BvmCase {
    pub init: Init,
    pub ops: Vec<Op>,
    pub obs_seed: u64,
}

const EDGES: [usize; 14] = [0, 1, 63, 64, 65, 127, 128, 129, 511, 512, 513, 1023, 1024, 1025];

fn gen_len(rng: &mut Rng) -> usize {
    match rng.below(10) {
        0 => 0,
        1..=3 => rng.urange(1, 70),
        4..=6 => *rng.pick(&EDGES),
        7..=8 => rng.urange(400, 1100),
        _ => rng.urange(1100, 2600),
    }
}

fn gen_bools(rng: &mut Rng, n: usize) -> Vec<bool> {
    if rng.chance(1, 5) {
        return crate::gen::gen_word_pattern_bits(rng, n);
    }
    let density = *rng.pick(&[0u64, 1, 8, 32, 56, 63, 64]);
    (0..n).map(|_| rng.below(64) < density).collect()
}

pub fn gen_case(run_seed: u64, tier: Tier) -> BvmCase {
    let mut rng = stream(run_seed, "workload");
    let mut frng = stream(run_seed, "faults");
    let mut n; // model length, to keep arguments inside the documented preconditions
    let init = match rng.below(6) {
        0 => {
            n = 0;
            Init::New
        }
        1 => {
            n = 0;
            Init::WithCapacity(gen_len(&mut rng))
        }
        2 => {
            n = gen_len(&mut rng);
            Init::WithZeros(n)
        }
        3 | 4 => {
            n = gen_len(&mut rng);
            Init::FromBools(bits_to_string(&gen_bools(&mut rng, n)))
        }
        _ => {
            let k = rng.urange(0, 40);
            let span = gen_len(&mut rng).max(1);
            let mut v: Vec<usize> = (0..k).map(|_| rng.usize_below(span)).collect();
            if rng.bool() {
                v.sort();
            }
            n = v.iter().max().map_or(0, |m| m + 1);
            Init::FromPositions(v)
        }
    };
    let max_ops = match tier {
        Tier::Quick => 40,
        Tier::Thorough => 60,
    };
    let n_ops = rng.urange(1, max_ops);
    // swarm: a per-run weight for every operation kind, some switched off entirely
    let mut weights = [0u64; 16];
    for w in weights.iter_mut() {
        *w = if rng.chance(1, 4) { 0 } else { rng.range(1, 8) };
    }
    if weights.iter().all(|&w| w == 0) {
        weights[0] = 1;
    }
    let total_w: u64 = weights.iter().sum();
    let mut ops = vec![];
    for _ in 0..n_ops {
        let mut pick = rng.below(total_w);
        let mut kind = 0;
        for (i, &w) in weights.iter().enumerate() {
            if pick < w {
                kind = i;
                break;
            }
            pick -= w;
        }
        let op = match kind {
            0 => {
                n += 1;
                Op::Push(rng.bool())
            }
            1 => {
                let len = match rng.below(4) {
                    0 => 64,
                    1 => 0,
                    _ => rng.urange(1, 64),
                };
                let bits = match rng.below(4) {
                    0 => 0,
                    1 => u64::MAX,
                    _ => rng.next_u64(),
                };
                let bits = if len == 64 { bits } else { bits & ((1u64 << len) - 1) };
                n += len;
                Op::AppendBits { bits, len }
            }
            2 => {
                let k = match rng.below(4) {
                    0 => 0,
                    1 => rng.urange(1, 70),
                    2 => (512 - n % 512) % 512 + rng.urange(0, 2), // up to / just over the line boundary
                    _ => rng.urange(70, 1200),
                };
                n += k;
                Op::ExtendZeros(k)
            }
            3 if n > 0 => {
                let i = match rng.below(4) {
                    0 => n - 1,
                    1 => 0,
                    _ => rng.usize_below(n),
                };
                Op::Set(i, rng.bool())
            }
            4 if n > 0 => {
                let len = match rng.below(5) {
                    0 => 64.min(n),
                    1 => 0,
                    _ => rng.urange(1, 64.min(n)),
                };
                let index = match rng.below(4) {
                    0 => n - len, // reaches the last bit
                    1 if n >= 64 => ((rng.usize_below(n / 64 + 1) * 64).saturating_sub(rng.usize_below(40))).min(n - len), // crossing a word boundary
                    _ => rng.usize_below(n - len + 1),
                };
                let bits = match rng.below(4) {
                    0 => 0,
                    1 => u64::MAX,
                    _ => rng.next_u64(),
                };
                let bits = if len == 64 { bits } else { bits & ((1u64 << len) - 1) };
                Op::SetBits { index, len, bits }
            }
            5 => {
                let k = rng.urange(0, 200);
                n += k;
                Op::ExtendBools(bits_to_string(&gen_bools(&mut rng, k)))
            }
            6 => {
                let k = rng.urange(0, 12);
                let span = n + rng.urange(1, 700);
                let v: Vec<usize> = (0..k).map(|_| rng.usize_below(span)).collect();
                if let Some(&m) = v.iter().max() {
                    n = n.max(m + 1);
                }
                Op::ExtendPositions(v)
            }
            7 => Op::ShrinkToFit,
            8 => Op::Clone,
            9 => Op::FreezeThaw,
            10 => Op::IterCollect,
            11 => Op::IntoIterCollect,
            13 => {
                let k = gen_len(&mut rng).min(1500);
                Op::CloneFrom(bits_to_string(&gen_bools(&mut rng, k)))
            }
            14 => {
                let k = rng.urange(1, 700);
                let j = match rng.below(3) {
                    0 => ((512 - n % 512) % 512).min(k), // the source fails / ends exactly at a line boundary
                    _ => rng.usize_below(k + 1),
                };
                let panic = rng.bool();
                // (the model length after a failed extend is the vector's choice; bounded here by the worst case)
                n += if panic { k } else { j };
                Op::ExtendBoolsFaulty(bits_to_string(&gen_bools(&mut rng, k)), if panic { SourceFault::PanicAfter(j) } else { SourceFault::NoneAfter(j) })
            }
            15 => {
                let k = rng.urange(1, 12);
                let span = n + rng.urange(1, 700);
                let v: Vec<usize> = (0..k).map(|_| rng.usize_below(span)).collect();
                if let Some(&m) = v.iter().max() {
                    n = n.max(m + 1);
                }
                let j = rng.usize_below(k + 1);
                Op::ExtendPositionsFaulty(v, if rng.bool() { SourceFault::PanicAfter(j) } else { SourceFault::NoneAfter(j) })
            }
            12 => {
                // the serialized size is about 24 + 64 * lines bytes
                let size = 24 + 64 * ((n as u64 + 511) / 512) + 8;
                Op::Persist {
                    cfg: frng.below(5) as u8,
                    plan: gen_plan(&mut frng, size, true),
                }
            }
            _ => {
                n += 1;
                Op::Push(rng.bool())
            }
        };
        ops.push(op);
    }
    BvmCase {
        init,
        ops,
        obs_seed: stream(run_seed, "queries").next_u64(),
    }
}

struct Ctx<'a> {
    out: &'a mut RunOut,
    digest: Digest,
    over_ones: bool,
}

impl Ctx<'_> {
    fn sig(&self, family: &str, op: &str, class: &str, shape: &str) -> Sig {
        Sig {
            property: "C08".into(),
            family: family.into(),
            op: op.into(),
            class: class.into(),
            shape: shape.into(),
        }
    }

    fn general_shape(&self, op: &str) -> &'static str {
        if self.over_ones && matches!(op, "count_ones" | "count_zeros" | "eq" | "eq_frozen") {
            "after_set_bits_over_set_bits"
        } else {
            "general"
        }
    }

    /// Compares an observation; `f` runs the real call under panic capture.
    fn obs<T: PartialEq + std::fmt::Debug>(
        &mut self,
        family: &str,
        op: &str,
        shape: Option<&str>,
        what: &dyn Fn() -> String,
        expect: T,
        f: impl FnOnce() -> T,
        hash: impl Fn(&T) -> u64,
    ) {
        match catch(f) {
            Ok(got) => {
                self.digest.u64(hash(&got));
                if got != expect {
                    let class = classify(&format!("{got:?}"), &format!("{expect:?}"));
                    let shape = shape.map(|s| s.to_string()).unwrap_or_else(|| self.general_shape(op).to_string());
                    let sig = self.sig(family, op, class, &shape);
                    self.out
                        .violate(sig, format!("{} returned {:?}, the plain sequence of booleans gives {:?}", what(), got, expect));
                }
            }
            Err(msg) => {
                self.digest.str("panic");
                let shape = shape.map(|s| s.to_string()).unwrap_or_else(|| self.general_shape(op).to_string());
                let sig = self.sig(family, op, panic_kind(&msg), &shape);
                self.out
                    .violate(sig, format!("{} panicked: {msg}; the plain sequence gives {:?}", what(), expect));
            }
        }
    }
}

fn classify(got: &str, expect: &str) -> &'static str {
    if got == "None" {
        "none_for_some"
    } else if expect == "None" {
        "some_for_none"
    } else {
        "wrong_value"
    }
}

fn model_bits(m: &[bool], start: usize, len: usize) -> Option<u64> {
    if len == 0 || len > 64 || start.checked_add(len)? > m.len() {
        return None;
    }
    let mut v = 0u64;
    for k in 0..len {
        if m[start + k] {
            v |= 1 << k;
        }
    }
    Some(v)
}

fn model_word(m: &[bool], w: usize) -> u64 {
    let mut v = 0u64;
    for k in 0..64 {
        if m.get(w * 64 + k).copied().unwrap_or(false) {
            v |= 1 << k;
        }
    }
    v
}

fn h_usize(x: &usize) -> u64 {
    *x as u64
}
fn h_opt_bool(x: &Option<bool>) -> u64 {
    match x {
        None => 2,
        Some(b) => *b as u64,
    }
}
fn h_opt_u64(x: &Option<u64>) -> u64 {
    match x {
        None => 0x4e,
        Some(v) => v.wrapping_mul(3).wrapping_add(1),
    }
}
fn h_vec_usize(x: &Vec<usize>) -> u64 {
    let mut d = Digest::default();
    for &v in x {
        d.u64(v as u64);
    }
    d.0
}
fn h_vec_bool(x: &Vec<bool>) -> u64 {
    let mut d = Digest::default();
    for &v in x {
        d.u64(v as u64);
    }
    d.0
}

/// Cheap observations after every step.
fn light(ctx: &mut Ctx, x: &BitVectorMut, m: &[bool], rng: &mut Rng, step: usize) {
    let n = m.len();
    let ones = m.iter().filter(|&&b| b).count();
    let w = |s: &str| format!("step {step}: {s}");
    ctx.obs("BitVectorMut", "len", None, &|| w("len()"), n, || x.len(), h_usize);
    ctx.obs("BitVectorMut", "is_empty", None, &|| w("is_empty()"), n == 0, || x.is_empty(), |b| *b as u64);
    ctx.obs("BitVectorMut", "count_ones", None, &|| w("count_ones()"), ones, || x.count_ones(), h_usize);
    ctx.obs("BitVectorMut", "count_zeros", None, &|| w("count_zeros()"), n - ones, || x.count_zeros(), h_usize);
    let mut pos = vec![0usize, n.saturating_sub(1), n, n + 1, usize::MAX, (1usize << 63) + n / 2];
    for _ in 0..3 {
        pos.push(rng.usize_below(n + 1));
    }
    for i in pos {
        ctx.obs("BitVectorMut", "get", None, &|| w(&format!("get({i})")), m.get(i).copied(), || x.get(i), h_opt_bool);
    }
    // multi-bit reads: sampled, plus reads ending exactly at the last bit
    let mut reads: Vec<(usize, usize)> = vec![];
    for _ in 0..3 {
        let len = rng.urange(1, 64);
        reads.push((rng.usize_below(n + 2), len));
    }
    let len = rng.urange(1, 64);
    if n >= len {
        reads.push((n - len, len));
        reads.push((n - len + 1, len));
    }
    reads.push((rng.usize_below(n + 1), 0));
    reads.push((rng.usize_below(n + 1), 65));
    for (start, len) in reads {
        let e = model_bits(m, start, len);
        let shape = if e.is_some() && start + len == n { Some("read_ends_at_last_bit") } else { None };
        ctx.obs(
            "BitVectorMut",
            "get_bits",
            shape,
            &|| w(&format!("get_bits({start}, {len}) with len()={n}")),
            e,
            || x.get_bits(start, len),
            h_opt_u64,
        );
    }
    if n > 0 {
        let words = (n + 63) / 64;
        for wi in [0, words - 1, rng.usize_below(words)] {
            ctx.obs(
                "BitVectorMut",
                "get_word",
                None,
                &|| w(&format!("get_word({wi})")),
                model_word(m, wi),
                || x.get_word(wi),
                |v| *v,
            );
        }
    }
}

/// The full sweep of readers, also on the frozen vector, plus equality with a freshly collected vector.
fn full(ctx: &mut Ctx, x: &BitVectorMut, m: &[bool], rng: &mut Rng, step: usize) {
    let n = m.len();
    let w = |s: &str| format!("step {step}: {s}");
    let ones: Vec<usize> = (0..n).filter(|&i| m[i]).collect();
    let zeros: Vec<usize> = (0..n).filter(|&i| !m[i]).collect();
    ctx.obs("BitVectorMut", "iter", None, &|| w("iter()"), m.to_vec(), || x.iter().collect::<Vec<bool>>(), h_vec_bool);
    ctx.obs("BitVectorMut", "ones", None, &|| w("ones()"), ones.clone(), || x.ones().collect::<Vec<usize>>(), h_vec_usize);
    ctx.obs("BitVectorMut", "zeros", None, &|| w("zeros()"), zeros.clone(), || x.zeros().collect::<Vec<usize>>(), h_vec_usize);
    let mut starts: Vec<usize> = vec![0, 1, n.saturating_sub(1), n, n + 1, n + 64, n + 513, 1 << 63, usize::MAX - 64, usize::MAX - 63, usize::MAX - 1, usize::MAX];
    for b in [64usize, 512] {
        let mut k = b;
        while k <= n + b && starts.len() < 40 {
            starts.extend([k - 1, k, k + 1]);
            k += b * (1 + n / (b * 6));
        }
    }
    for _ in 0..4 {
        starts.push(rng.usize_below(n + 1));
    }
    starts.sort();
    starts.dedup();
    for &p in &starts {
        let e1: Vec<usize> = ones.iter().copied().filter(|&q| q >= p).collect();
        let e0: Vec<usize> = zeros.iter().copied().filter(|&q| q >= p).collect();
        let shape = if p >= n { Some("start_at_or_past_the_end") } else { None };
        ctx.obs(
            "BitVectorMut",
            "ones_with_pos",
            shape,
            &|| w(&format!("ones_with_pos({p}) with len()={n}")),
            e1,
            || x.ones_with_pos(p).collect::<Vec<usize>>(),
            h_vec_usize,
        );
        ctx.obs(
            "BitVectorMut",
            "zeros_with_pos",
            shape,
            &|| w(&format!("zeros_with_pos({p}) with len()={n}")),
            e0,
            || x.zeros_with_pos(p).collect::<Vec<usize>>(),
            h_vec_usize,
        );
    }
    // every read length at the last possible start
    for len in 1..=64usize {
        if n >= len {
            let start = n - len;
            ctx.obs(
                "BitVectorMut",
                "get_bits",
                Some("read_ends_at_last_bit"),
                &|| w(&format!("get_bits({start}, {len}) with len()={n}")),
                model_bits(m, start, len),
                || x.get_bits(start, len),
                h_opt_u64,
            );
        }
    }
    // the iterators beyond next(): skipping (nth / skip / step_by), count, last on partly consumed iterators
    {
        let steps = [rng.urange(2, 9), *rng.pick(&[63usize, 64, 65, 128, 511, 512, 513])];
        for s_ in steps {
            let e: Vec<bool> = m.iter().copied().step_by(s_).collect();
            ctx.obs("BitVectorMut", "iter_step_by", None, &|| w(&format!("iter().step_by({s_}) with len()={n}")), e, || x.iter().step_by(s_).take(n + 64).collect::<Vec<bool>>(), h_vec_bool);
            let e: Vec<usize> = ones.iter().copied().step_by(s_).collect();
            ctx.obs("BitVectorMut", "ones_step_by", None, &|| w(&format!("ones().step_by({s_}) with len()={n}")), e, || x.ones().step_by(s_).take(n + 64).collect::<Vec<usize>>(), h_vec_usize);
        }
        for _ in 0..3 {
            // consume c bits (often a multiple of the word size), then nth(j), then the rest / count / last
            let c = match rng.below(4) {
                0 => (rng.usize_below(n / 64 + 1) * 64).min(n),
                1 => (rng.usize_below(n / 512 + 1) * 512).min(n),
                2 => n,
                _ => rng.usize_below(n + 1),
            };
            let j = if rng.chance(1, 5) { n + rng.usize_below(3) } else { rng.usize_below(70) };
            let rest: Vec<bool> = m.iter().copied().skip(c).collect();
            let left = rest.len().saturating_sub(j + 1);
            let e_nth = (rest.get(j).copied(), rest.iter().copied().skip(j + 1).collect::<Vec<bool>>(), left, true);
            ctx.obs(
                "BitVectorMut",
                "iter_nth",
                None,
                &|| w(&format!("iter(): {c} x next(), then nth({j}), then (len(), size_hint() encloses what is left) and the rest; len()={n}")),
                e_nth,
                || {
                    let mut it = x.iter();
                    for _ in 0..c {
                        it.next();
                    }
                    let g = it.nth(j);
                    let (l, h) = (it.len(), it.size_hint());
                    let h = h.0 <= left && h.1.map_or(true, |u| u >= left);
                    (g, it.take(n + 64).collect::<Vec<bool>>(), l, h)
                },
                |v| h_vec_bool(&v.1) ^ v.0.map_or(7, |b| b as u64),
            );
            ctx.obs(
                "BitVectorMut",
                "iter_count_last",
                None,
                &|| w(&format!("iter(): {c} x next(), then (len(), count(), last()); len()={n}")),
                (rest.len(), rest.len(), rest.last().copied()),
                || {
                    let mut it = x.iter();
                    for _ in 0..c {
                        it.next();
                    }
                    let mut it2 = x.iter();
                    for _ in 0..c {
                        it2.next();
                    }
                    (it.len(), it.count(), it2.last())
                },
                |v| v.0 as u64 ^ (v.1 as u64) << 20 ^ v.2.map_or(7, |b| b as u64) << 40,
            );
            // the same on the positions of ones from a start position
            let p = rng.usize_below(n + 2);
            let c1 = rng.usize_below(ones.len().min(130) + 1);
            let rest1: Vec<usize> = ones.iter().copied().filter(|&q| q >= p).skip(c1).collect();
            let e1 = (rest1.get(j % 5).copied(), rest1.iter().copied().skip(j % 5 + 1).collect::<Vec<usize>>());
            ctx.obs(
                "BitVectorMut",
                "ones_nth",
                None,
                &|| w(&format!("ones_with_pos({p}): {c1} x next(), then nth({}), then the rest; len()={n}", j % 5)),
                e1,
                || {
                    let mut it = x.ones_with_pos(p);
                    for _ in 0..c1 {
                        it.next();
                    }
                    let g = it.nth(j % 5);
                    (g, it.take(n + 64).collect::<Vec<usize>>())
                },
                |v| h_vec_usize(&v.1) ^ v.0.map_or(7, |b| b as u64),
            );
        }
    }
    // the unchecked readers, inside their documented preconditions (index and index + len within the vector)
    if n > 0 {
        for _ in 0..4 {
            let i = if rng.chance(1, 4) { n - 1 } else { rng.usize_below(n) };
            // SAFETY: i < n
            ctx.obs("BitVectorMut", "get_unchecked", None, &|| w(&format!("get_unchecked({i}) with len()={n}")), m[i], || unsafe { x.get_unchecked(i) }, |b| *b as u64);
            let len = rng.urange(1, 64.min(n));
            let start = if rng.bool() { n - len } else { rng.usize_below(n - len + 1) };
            // SAFETY: start + len <= n, 1 <= len <= 64
            ctx.obs(
                "BitVectorMut",
                "get_bits_unchecked",
                None,
                &|| w(&format!("get_bits_unchecked({start}, {len}) with len()={n}")),
                model_bits(m, start, len).unwrap_or(0),
                || unsafe { x.get_bits_unchecked(start, len) },
                |v| *v,
            );
        }
    }
    // the frozen vector
    let frozen = catch(|| BitVector::from(x.clone()));
    match frozen {
        Ok(bv) => {
            let ones_n = ones.len();
            ctx.obs("BitVector", "len", None, &|| w("frozen len()"), n, || bv.len(), h_usize);
            ctx.obs("BitVector", "count_ones", None, &|| w("frozen count_ones()"), ones_n, || bv.count_ones(), h_usize);
            ctx.obs("BitVector", "count_zeros", None, &|| w("frozen count_zeros()"), n - ones_n, || bv.count_zeros(), h_usize);
            ctx.obs("BitVector", "iter", None, &|| w("frozen iter()"), m.to_vec(), || bv.iter().collect::<Vec<bool>>(), h_vec_bool);
            ctx.obs("BitVector", "ones", None, &|| w("frozen ones()"), ones.clone(), || bv.ones().collect::<Vec<usize>>(), h_vec_usize);
            ctx.obs("BitVector", "zeros", None, &|| w("frozen zeros()"), zeros.clone(), || bv.zeros().collect::<Vec<usize>>(), h_vec_usize);
            for &p in starts.iter().take(12).chain(starts.iter().rev().take(5)) {
                let e1: Vec<usize> = ones.iter().copied().filter(|&q| q >= p).collect();
                ctx.obs(
                    "BitVector",
                    "ones_with_pos",
                    None,
                    &|| w(&format!("frozen ones_with_pos({p})")),
                    e1,
                    || bv.ones_with_pos(p).collect::<Vec<usize>>(),
                    h_vec_usize,
                );
            }
            for &p in starts.iter().rev().take(9).chain(starts.iter().skip(2).step_by(5)) {
                let e0: Vec<usize> = zeros.iter().copied().filter(|&q| q >= p).collect();
                ctx.obs(
                    "BitVector",
                    "zeros_with_pos",
                    None,
                    &|| w(&format!("frozen zeros_with_pos({p}) with len()={n}")),
                    e0,
                    || bv.zeros_with_pos(p).collect::<Vec<usize>>(),
                    h_vec_usize,
                );
            }
            {
                let s_ = *rng.pick(&[3usize, 5, 7, 64, 65]);
                let e: Vec<bool> = m.iter().copied().step_by(s_).collect();
                ctx.obs("BitVector", "iter_step_by", None, &|| w(&format!("frozen iter().step_by({s_}) with len()={n}")), e.clone(), || bv.iter().step_by(s_).take(n + 64).collect::<Vec<bool>>(), h_vec_bool);
                ctx.obs("BitVector", "ref_into_iter_step_by", None, &|| w(&format!("frozen (&bv).into_iter().step_by({s_}) with len()={n}")), e.clone(), || (&bv).into_iter().step_by(s_).take(n + 64).collect::<Vec<bool>>(), h_vec_bool);
                ctx.obs("BitVector", "into_iter_step_by", None, &|| w(&format!("frozen clone().into_iter().step_by({s_}) with len()={n}")), e, || bv.clone().into_iter().step_by(s_).take(n + 64).collect::<Vec<bool>>(), h_vec_bool);
                let c = (rng.usize_below(n / 64 + 1) * 64).min(n);
                let j = if rng.chance(1, 5) { n + rng.usize_below(3) } else { rng.usize_below(70) };
                let rest: Vec<bool> = m.iter().copied().skip(c).collect();
                let left = rest.len().saturating_sub(j + 1);
                let e_nth = (rest.get(j).copied(), rest.iter().copied().skip(j + 1).collect::<Vec<bool>>(), left, true);
                ctx.obs(
                    "BitVector",
                    "iter_nth",
                    None,
                    &|| w(&format!("frozen iter(): {c} x next(), then nth({j}), then (len(), size_hint() encloses what is left) and the rest; len()={n}")),
                    e_nth.clone(),
                    || {
                        let mut it = bv.iter();
                        for _ in 0..c {
                            it.next();
                        }
                        let g = it.nth(j);
                        let (l, h) = (it.len(), it.size_hint());
                    let h = h.0 <= left && h.1.map_or(true, |u| u >= left);
                        (g, it.take(n + 64).collect::<Vec<bool>>(), l, h)
                    },
                    |v| h_vec_bool(&v.1) ^ v.0.map_or(7, |b| b as u64),
                );
                ctx.obs(
                    "BitVector",
                    "into_iter_nth",
                    None,
                    &|| w(&format!("frozen clone().into_iter(): {c} x next(), then nth({j}), then (len(), size_hint() encloses what is left) and the rest; len()={n}")),
                    e_nth,
                    || {
                        let mut it = bv.clone().into_iter();
                        for _ in 0..c {
                            it.next();
                        }
                        let g = it.nth(j);
                        let (l, h) = (it.len(), it.size_hint());
                    let h = h.0 <= left && h.1.map_or(true, |u| u >= left);
                        (g, it.take(n + 64).collect::<Vec<bool>>(), l, h)
                    },
                    |v| h_vec_bool(&v.1) ^ v.0.map_or(7, |b| b as u64),
                );
            }
            if n > 0 {
                for _ in 0..3 {
                    let i = if rng.chance(1, 4) { n - 1 } else { rng.usize_below(n) };
                    // SAFETY: i < n
                    ctx.obs("BitVector", "get_unchecked", None, &|| w(&format!("frozen get_unchecked({i}) with len()={n}")), m[i], || unsafe { bv.get_unchecked(i) }, |b| *b as u64);
                    let len = rng.urange(1, 64.min(n));
                    let start = if rng.bool() { n - len } else { rng.usize_below(n - len + 1) };
                    // SAFETY: start + len <= n, 1 <= len <= 64
                    ctx.obs(
                        "BitVector",
                        "get_bits_unchecked",
                        None,
                        &|| w(&format!("frozen get_bits_unchecked({start}, {len}) with len()={n}")),
                        model_bits(m, start, len).unwrap_or(0),
                        || unsafe { bv.get_bits_unchecked(start, len) },
                        |v| *v,
                    );
                }
            }
            for i in [0, n / 2, n.saturating_sub(1), n, n + 1] {
                ctx.obs("BitVector", "get", None, &|| w(&format!("frozen get({i})")), m.get(i).copied(), || bv.get(i), h_opt_bool);
            }
            for _ in 0..4 {
                let len = rng.urange(1, 64);
                let start = if n >= len && rng.bool() { n - len } else { rng.usize_below(n + 2) };
                ctx.obs(
                    "BitVector",
                    "get_bits",
                    None,
                    &|| w(&format!("frozen get_bits({start}, {len}) with len()={n}")),
                    model_bits(m, start, len),
                    || bv.get_bits(start, len),
                    h_opt_u64,
                );
            }
            if n > 0 {
                let words = (n + 63) / 64;
                let wi = rng.usize_below(words);
                ctx.obs("BitVector", "get_word", None, &|| w(&format!("frozen get_word({wi})")), model_word(m, wi), || bv.get_word(wi), |v| *v);
            }
            // collecting from positions (any integer type) gives the same vector when the last bit is set
            if m.last() == Some(&true) {
                let p64: BitVector = ones.iter().map(|&p| p as u64).collect();
                let p32: BitVector = ones.iter().map(|&p| p as i32).collect();
                let pus: BitVector = ones.iter().copied().collect();
                ctx.obs(
                    "BitVector",
                    "eq_frozen",
                    None,
                    &|| w("frozen == BitVector collected from the positions of its ones (u64, i32, usize)"),
                    (true, true, true),
                    || (bv == p64, bv == p32, bv == pus),
                    |b| b.0 as u64 + 2 * b.1 as u64 + 4 * b.2 as u64,
                );
                // the other integer types, when every position fits
                macro_rules! from_positions {
                    ($($t:ty),*) => {{
                        $(
                            if (n - 1) as u128 <= <$t>::MAX as u128 {
                                ctx.obs(
                                    "BitVector",
                                    "eq_frozen",
                                    None,
                                    &|| w(concat!("frozen == BitVector collected from the positions of its ones as ", stringify!($t))),
                                    true,
                                    || bv == ones.iter().map(|&p| p as $t).collect::<BitVector>(),
                                    |b| *b as u64,
                                );
                            }
                        )*
                    }};
                }
                match rng.below(4) {
                    0 => from_positions!(i8, u8, i16),
                    1 => from_positions!(u16, u32, i64),
                    2 => from_positions!(isize, u128, i128),
                    _ => {}
                }
            }
            // two vectors holding the same bits compare equal
            let fresh: BitVector = m.iter().copied().collect();
            ctx.obs(
                "BitVector",
                "eq_frozen",
                None,
                &|| w("frozen == BitVector collected from the same bits"),
                true,
                || bv == fresh,
                |b| *b as u64,
            );
        }
        Err(msg) => {
            let sig = ctx.sig("BitVector", "from_mut", panic_kind(&msg), "general");
            ctx.out.violate(sig, format!("step {step}: BitVector::from(BitVectorMut) panicked: {msg}"));
        }
    }
    let fresh: BitVectorMut = m.iter().copied().collect();
    ctx.obs(
        "BitVectorMut",
        "eq",
        None,
        &|| w("== BitVectorMut collected from the same bits"),
        true,
        || *x == fresh,
        |b| *b as u64,
    );
}

pub fn exec(case: &BvmCase) -> RunOut {
    let mut out = RunOut::default();
    out.nontrivial = case.ops.len() >= 2;
    let mut rng = Rng::new(case.obs_seed);
    let mut m: Vec<bool>;
    let built = catch(|| match &case.init {
        Init::New => BitVectorMut::new(),
        Init::WithCapacity(k) => BitVectorMut::with_capacity(*k),
        Init::WithZeros(k) => BitVectorMut::with_zeros(*k),
        Init::FromBools(s) => {
            let style = (s.len() % HINT_STYLES as usize) as u8;
            Hinted { inner: string_to_bits(s).into_iter(), style }.collect::<BitVectorMut>()
        }
        Init::FromPositions(v) => {
            let style = (v.len() % HINT_STYLES as usize) as u8;
            Hinted { inner: v.iter().copied(), style }.collect::<BitVectorMut>()
        }
    });
    m = match &case.init {
        Init::New | Init::WithCapacity(_) => vec![],
        Init::WithZeros(k) => vec![false; *k],
        Init::FromBools(s) => string_to_bits(s),
        Init::FromPositions(v) => {
            let n = v.iter().max().map_or(0, |m| m + 1);
            let mut b = vec![false; n];
            for &p in v {
                b[p] = true;
            }
            b
        }
    };
    let mut ctx = Ctx {
        out: &mut out,
        digest: Digest::default(),
        over_ones: false,
    };
    let mut x = match built {
        Ok(x) => x,
        Err(msg) => {
            let sig = ctx.sig("BitVectorMut", "construct", panic_kind(&msg), "general");
            ctx.out.violate(sig, format!("constructing {:?} panicked: {msg}", case.init));
            out.digest = 1;
            return out;
        }
    };
    ctx.out.count(&format!("init.{}", format!("{:?}", case.init).split('(').next().unwrap()), 1);
    light(&mut ctx, &x, &m, &mut rng, 0);
    let mut skipped = 0u64;
    let mut disk_stats = crate::simdisk::DiskStats::default();
    for (k, op) in case.ops.iter().enumerate() {
        let step = k + 1;
        let n = m.len();
        // arguments must stay inside the documented preconditions; an op that a shrunken history made
        // invalid is skipped, never executed
        let valid = match op {
            Op::AppendBits { bits, len } => *len <= 64 && (*len == 64 || bits >> len == 0),
            Op::Set(i, _) => *i < n,
            Op::SetBits { index, len, bits } => {
                *len <= 64 && index.checked_add(*len).map_or(false, |e| e <= n) && (*len == 64 || bits >> len == 0)
            }
            _ => true,
        };
        if !valid {
            skipped += 1;
            continue;
        }
        let name = format!("{op:?}");
        let name = name.split(|c| c == '(' || c == ' ' || c == '{').next().unwrap().to_string();
        ctx.out.count(&format!("op.{name}"), 1);
        let mut probe_line_cross = false;
        if let Op::Persist { cfg, plan } = op {
            let y = std::mem::take(&mut x);
            let cfg = *cfg;
            let (mut disk, wres) = persist(plan, &|w| ser_with(cfg, &y, w));
            let back = match wres {
                Ok(()) => reload(plan, &mut disk, &|r| de_with::<BitVectorMut>(cfg, r)),
                Err(e) => Err(format!("write path: {e}")),
            };
            let st = disk.stats.clone();
            disk_stats.short_writes += st.short_writes;
            disk_stats.eintr_writes += st.eintr_writes;
            disk_stats.short_reads += st.short_reads;
            disk_stats.eintr_reads += st.eintr_reads;
            disk_stats.syncs += st.syncs;
            disk_stats.crashes += st.crashes;
            disk_stats.write_calls += st.write_calls;
            disk_stats.read_calls += st.read_calls;
            ctx.out.count("fault.persist_restart", 1);
            if n % 512 == 0 && n > 0 {
                ctx.out.count("probe.restart_with_full_last_line", 1);
            }
            match back {
                Ok(z) => {
                    if z != y {
                        let sig = ctx.sig("BitVectorMut", "persist_restart", "not_equal", "general");
                        ctx.out.violate(
                            sig,
                            format!("step {step}: the value reloaded after sync{} does not compare equal to the one written", if plan.crash.is_some() { " + crash" } else { "" }),
                        );
                    }
                    x = z;
                }
                Err(e) => {
                    let sig = ctx.sig("BitVectorMut", "persist_restart", "io_error_under_retryable_faults", "general");
                    ctx.out
                        .violate(sig, format!("step {step}: persisting and reloading under retryable faults only failed: {e}"));
                    x = y;
                }
            }
        } else if let Op::ExtendBoolsFaulty(..) | Op::ExtendPositionsFaulty(..) = op {
            // the source iterator is the seam: it fails (the panic is caught and the vector stays in use) or reports
            // its end early. Afterwards the vector holds what it held plus the effect of some prefix of the values
            // the source had yielded (which prefix is the vector's choice), never anything else.
            let (fault, total) = match op {
                Op::ExtendBoolsFaulty(s, f) => (*f, s.len()),
                Op::ExtendPositionsFaulty(v, f) => (*f, v.len()),
                _ => unreachable!(),
            };
            let r = catch(|| match op {
                Op::ExtendBoolsFaulty(s, f) => x.extend(FaultySource::new(string_to_bits(s).into_iter(), *f)),
                Op::ExtendPositionsFaulty(v, f) => x.extend(FaultySource::new(v.iter().copied(), *f)),
                _ => unreachable!(),
            });
            let apply = |m: &mut Vec<bool>, upto: usize| match op {
                Op::ExtendBoolsFaulty(s, _) => m.extend(string_to_bits(s).into_iter().take(upto)),
                Op::ExtendPositionsFaulty(v, _) => {
                    for &p in v.iter().take(upto) {
                        if p >= m.len() {
                            m.resize(p + 1, false);
                        }
                        m[p] = true;
                    }
                }
                _ => unreachable!(),
            };
            match (fault, r) {
                (SourceFault::NoneAfter(j), Ok(())) => {
                    ctx.out.count("fault.source_ends_early", 1);
                    apply(&mut m, j.min(total));
                }
                (SourceFault::PanicAfter(j), Ok(())) if j >= total => apply(&mut m, total),
                (SourceFault::PanicAfter(j), Err(msg)) if msg.contains(SOURCE_FAULT_MARK) => {
                    ctx.out.count("fault.source_panics", 1);
                    let j = j.min(total);
                    let seen = catch(|| (x.len(), x.iter().take(m.len() + total + 4096).collect::<Vec<bool>>()));
                    let mut matched = None;
                    if let Ok((l, bits)) = &seen {
                        for upto in (0..=j).rev() {
                            let mut cand = m.clone();
                            apply(&mut cand, upto);
                            if cand.len() == *l && &cand == bits {
                                matched = Some(cand);
                                break;
                            }
                        }
                    }
                    match matched {
                        Some(cand) => m = cand,
                        None => {
                            let sig = ctx.sig("BitVectorMut", "extend_interrupted", "wrong_value", "general");
                            ctx.out.violate(
                                sig,
                                format!(
                                    "step {step}: after an extend whose source failed after {j} values the vector ({:?}) is not what it was ({n} bits) plus the effect of any prefix of those values",
                                    seen.as_ref().map(|(l, _)| *l)
                                ),
                            );
                            break;
                        }
                    }
                }
                (_, Ok(())) => {
                    let sig = ctx.sig("BitVectorMut", "extend_interrupted", "fault_swallowed", "general");
                    ctx.out.violate(sig, format!("step {step}: extend returned normally although its source panicked"));
                    break;
                }
                (_, Err(msg)) => {
                    let sig = ctx.sig("BitVectorMut", "extend", panic_kind(&msg), "general");
                    ctx.out.violate(sig, format!("step {step}: extend from a faulty source ({fault:?}) panicked: {msg}"));
                    break;
                }
            }
        } else {
            let res = catch(|| {
            let mut y = std::mem::take(&mut x);
            match op {
                Op::Push(b) => y.push(*b),
                Op::AppendBits { bits, len } => {
                    if n / 512 != (n + len) / 512 {
                        probe_line_cross = true;
                    }
                    y.append_bits(*bits, *len)
                }
                Op::ExtendZeros(k) => y.extend_with_zeros(*k),
                Op::Set(i, b) => y.set(*i, *b),
                Op::SetBits { index, len, bits } => y.set_bits(*index, *len, *bits),
                Op::ExtendBools(s) => {
                    let style = ((s.len() + step) % HINT_STYLES as usize) as u8;
                    y.extend(Hinted { inner: string_to_bits(s).into_iter(), style })
                }
                Op::ExtendPositions(v) => {
                    let style = ((v.len() + step) % HINT_STYLES as usize) as u8;
                    y.extend(Hinted { inner: v.iter().copied(), style })
                }
                Op::ShrinkToFit => y.shrink_to_fit(),
                Op::Clone => {
                    let z = y.clone();
                    y = z;
                }
                Op::CloneFrom(dst_bits) => {
                    let mut dst: BitVectorMut = string_to_bits(dst_bits).into_iter().collect();
                    dst.clone_from(&y);
                    y = dst;
                }
                Op::FreezeThaw => {
                    let f: BitVector = y.into();
                    y = f.into();
                }
                Op::IterCollect => {
                    let style = ((n + step) % HINT_STYLES as usize) as u8;
                    y = Hinted { inner: y.iter(), style }.collect::<BitVectorMut>();
                }
                Op::IntoIterCollect => {
                    y = y.into_iter().collect::<BitVectorMut>();
                }
                Op::Persist { .. } | Op::ExtendBoolsFaulty(..) | Op::ExtendPositionsFaulty(..) => unreachable!(),
            }
            y
            });
            match res {
                Ok(y) => x = y,
                Err(msg) => {
                    let sig = ctx.sig("BitVectorMut", &name.to_lowercase(), panic_kind(&msg), "general");
                    ctx.out.violate(
                        sig,
                        format!("step {step}: {op:?} on a vector of {n} bits panicked although its documented precondition holds: {msg}"),
                    );
                    break;
                }
            }
        }
        // the model
        match op {
            Op::Push(b) => m.push(*b),
            Op::AppendBits { bits, len } => {
                for i in 0..*len {
                    m.push(bits >> i & 1 == 1)
                }
            }
            Op::ExtendZeros(k) => m.extend(std::iter::repeat(false).take(*k)),
            Op::Set(i, b) => m[*i] = *b,
            Op::SetBits { index, len, bits } => {
                for i in 0..*len {
                    if m[index + i] {
                        ctx.over_ones = true;
                        ctx.out.count("probe.set_bits_over_set_bits", 1);
                    }
                    m[index + i] = bits >> i & 1 == 1;
                }
            }
            Op::ExtendBools(s) => m.extend(string_to_bits(s)),
            Op::ExtendPositions(v) => {
                for &p in v {
                    if p >= m.len() {
                        ctx.out.count("probe.position_extend_beyond_end", 1);
                        m.resize(p + 1, false);
                    }
                    m[p] = true;
                }
            }
            _ => {}
        }
        if probe_line_cross {
            ctx.out.count("probe.append_across_line_boundary", 1);
        }
        light(&mut ctx, &x, &m, &mut rng, step);
        if step % 8 == 0 {
            full(&mut ctx, &x, &m, &mut rng, step);
        }
    }
    let last = case.ops.len() + 1;
    full(&mut ctx, &x, &m, &mut rng, last);
    let n = m.len();
    let ones = m.iter().filter(|&&b| b).count();
    let d = ctx.digest.0;
    let over = ctx.over_ones;
    drop(ctx);
    disk_stats.add_to(&mut out);
    out.count("ops_skipped_precondition", skipped);
    // distinct-state fingerprint: history shape and final state class
    let mut fp = Digest::default();
    fp.str(&format!("{:?}", case.init).split('(').next().unwrap().to_string());
    for op in &case.ops {
        let s = format!("{op:?}");
        fp.str(s.split(|c| c == '(' || c == ' ' || c == '{').next().unwrap());
    }
    fp.u64((n % 512) as u64);
    fp.u64(if n == 0 { 0 } else { (ones * 8 / n.max(1)) as u64 });
    fp.u64(over as u64);
    out.fps.push(fp.0);
    out.digest = d;
    out
}
