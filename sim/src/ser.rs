//! C11: serialization round trip across a faulty transport (the simulated disk).

use serde::{Deserialize, Serialize};

use crate::core::{catch, panic_kind, RunOut, Sig, Tier};
use crate::ds::{ser_vec, DynDs, A, BINCODE_CONFIGS};
use crate::prng::{fnv, stream, Digest, Rng};
use crate::simdisk::{gen_plan, persist, plan_is_retryable, reload, DiskPlan};
use crate::spec::{gen_queries, gen_spec, Spec};

#[derive(Clone, Debug, PartialEq, Serialize, Deserialize)]
pub struct SerCase {
    pub spec: Spec,
    /// bincode configuration: 0..=3 = fixint/varint x little/big endian, 4 = the plain top-level functions
    pub cfg: u8,
    /// None = fault-free configuration (plain in-memory serialize / deserialize)
    pub plan: Option<DiskPlan>,
    pub qseed: u64,
    pub n_queries: usize,
    /// the value has a query history before it is serialized (the batch is run on it first)
    #[serde(default)]
    pub queried_first: bool,
}

pub fn gen_case(run_seed: u64, tier: Tier) -> SerCase {
    let mut rng = stream(run_seed, "workload");
    let mut frng = stream(run_seed, "faults");
    let mut spec = gen_spec(&mut rng, tier);
    // one run in 25: a bit structure shaped after the select inventories (block / subblock / span boundaries)
    if rng.chance(1, 25) {
        use crate::ds::Flat;
        spec = Spec::Bits {
            kind: *rng.pick(&[Flat::DArray, Flat::DArray0, Flat::DArray, Flat::DArray0, Flat::RSNarrow, Flat::RSWide]),
            bits: crate::spec::gen_inventory_shaped_bits(&mut rng),
        };
    }
    let cfg = frng.below(5) as u8;
    let plan = if frng.below(10) < 4 {
        None
    } else {
        // size estimate; offsets beyond the real size simply never fire
        let est = match &spec {
            Spec::Tree { seq, alias, .. } => (seq.len() as u64 * if alias.is_quad() { 2 } else { 8 }).max(64) + 200,
            _ => (spec.n() as u64 / 3).max(64) + 100,
        };
        let retryable_only = frng.below(10) < 7;
        Some(gen_plan(&mut frng, est, retryable_only))
    };
    SerCase {
        spec,
        cfg,
        plan,
        qseed: stream(run_seed, "queries").next_u64(),
        n_queries: 60,
        queried_first: frng.bool(),
    }
}

fn sig(family: &str, op: &str, class: &str, shape: &str) -> Sig {
    Sig {
        property: "C11".into(),
        family: family.into(),
        op: op.into(),
        class: class.into(),
        shape: shape.into(),
    }
}

fn family_of(spec: &Spec) -> String {
    match spec {
        Spec::Tree { alias, .. } | Spec::TreeDefault { alias, .. } => alias.family().to_string(),
        Spec::Bits { kind, .. } | Spec::Quads { kind, .. } | Spec::FlatDefault { kind } => format!("{kind:?}"),
    }
}

pub fn exec(case: &SerCase) -> RunOut {
    let mut out = RunOut::default();
    let mut digest = Digest::default();
    let fam = family_of(&case.spec);
    let x = match catch(|| case.spec.build()) {
        Ok(x) => x,
        Err(_) => {
            // a value that cannot be constructed is not a value of the type: C02/C03/C08 own construction
            out.count("construction_failed", 1);
            out.count(&format!("construction_failed.{}", case.spec.kind_name()), 1);
            out.digest = 3;
            return out;
        }
    };
    let shape = if case.spec.n() == 0 { "empty_value" } else { "general" };
    out.nontrivial = case.spec.n() > 0;
    out.count(&format!("type.{fam}"), 1);
    out.count(&format!("config.{}", BINCODE_CONFIGS.get(case.cfg as usize).copied().unwrap_or("plain_functions")), 1);
    if case.queried_first {
        // "every value": also one that has already answered queries
        let mut qrng = Rng::new(case.qseed);
        for q in gen_queries(&case.spec, &mut qrng, case.n_queries) {
            let _ = catch(|| x.answer(&q));
        }
        out.count("values_with_a_query_history", 1);
    }
    if case.qseed & 2 == 0 {
        // a history over two values: this thread has just serialized and reloaded another, larger value of the same
        // type (scratch state kept outside the values - a thread-local buffer, a global table - shows up here, inside
        // one case, so that the replay does not depend on what the worker process did before)
        if let Some(other) = crate::thr::reversed_spec(&case.spec) {
            let _ = catch(|| {
                let z = other.build();
                let bytes = ser_vec(z.as_ref(), case.cfg)?;
                z.de_slice(case.cfg, &bytes).map(|_| ())
            });
            out.count("two_value_histories", 1);
        }
    }
    let bytes0 = match catch(|| ser_vec(x.as_ref(), case.cfg)) {
        Ok(Ok(b)) => b,
        Ok(Err(e)) => {
            out.violate(sig(&fam, "serialize", "encode_error", shape), format!("serializing {} failed: {e}", x.kind()));
            return out;
        }
        Err(msg) => {
            out.violate(sig(&fam, "serialize", panic_kind(&msg), shape), format!("serializing {} panicked: {msg}", x.kind()));
            return out;
        }
    };
    if bytes0.len() > 65536 {
        out.count("probe.value_larger_than_64KiB", 1);
    }
    digest.bytes(&bytes0);
    let cfg = case.cfg;
    // ---- transport
    let (y, obligations): (Option<Box<dyn DynDs>>, bool) = match &case.plan {
        None => {
            out.count("config.fault_free", 1);
            // both fault-free paths users have: from a byte slice, and from a reader
            match catch(|| x.de_slice(cfg, &bytes0)) {
                Ok(Ok(z)) => {
                    if !catch(|| z.eq_dyn(x.as_ref())).unwrap_or(false) {
                        out.violate(sig(&fam, "eq", "not_equal", shape), format!("{}: the value deserialized from the byte slice does not compare equal to the original", x.kind()));
                    }
                }
                Ok(Err(e)) => out.violate(sig(&fam, "deserialize_slice", "decode_error", shape), format!("deserializing {} from the byte slice just produced ({} bytes) failed: {e}", x.kind(), bytes0.len())),
                Err(msg) => out.violate(sig(&fam, "deserialize_slice", panic_kind(&msg), shape), format!("deserializing {} from a byte slice panicked: {msg}", x.kind())),
            }
            let r = catch(|| x.de_from(cfg, &mut &bytes0[..]));
            match r {
                Ok(Ok(y)) => (Some(y), true),
                Ok(Err(e)) => {
                    out.violate(sig(&fam, "deserialize", "decode_error", shape), format!("deserializing the {} bytes just produced for {} failed: {e}", bytes0.len(), x.kind()));
                    (None, true)
                }
                Err(msg) => {
                    out.violate(sig(&fam, "deserialize", panic_kind(&msg), shape), format!("deserializing {} panicked: {msg}", x.kind()));
                    (None, true)
                }
            }
        }
        Some(plan) => {
            out.count("config.faulty", 1);
            let retryable = plan_is_retryable(plan);
            let r = catch(|| {
                let (mut disk, wres) = persist(plan, &|w| x.ser_into(cfg, w));
                let acked = wres.is_ok();
                let back = match &wres {
                    Ok(()) => reload(plan, &mut disk, &|r| x.de_from(cfg, r)),
                    Err(e) => Err(format!("write path: {e}")),
                };
                (disk, acked, back)
            });
            match r {
                Ok((disk, acked, back)) => {
                    disk.stats.add_to(&mut out);
                    // probes: a fault landed inside the first 8 bytes (a length prefix / first field)
                    if plan.read_faults.range(1..8).next().is_some() && disk.stats.read_calls > 0 {
                        out.count("probe.read_split_inside_first_field", 1);
                    }
                    if retryable {
                        out.count("faulty.retryable_only", 1);
                        match back {
                            Ok(y) => {
                                if disk.durable != bytes0 {
                                    out.violate(
                                        sig(&fam, "serialize_into", "bytes_differ_under_retryable_faults", shape),
                                        format!("{}: the bytes that reached the disk through short/interrupted writes differ from the fault-free serialization ({} vs {} bytes)", x.kind(), disk.durable.len(), bytes0.len()),
                                    );
                                }
                                (Some(y), true)
                            }
                            Err(e) => {
                                let _ = acked;
                                out.violate(
                                    sig(&fam, "round_trip", "io_error_under_retryable_faults", shape),
                                    format!("{}: only retryable faults fired (short reads/writes, EINTR, crash after sync) but the round trip failed: {e}", x.kind()),
                                );
                                (None, true)
                            }
                        }
                    } else {
                        // informational: the statement is about "its bincode serialization", not about damaged files
                        out.count("faulty.degraded_informational", 1);
                        match back {
                            Ok(y) => {
                                if y.eq_dyn(x.as_ref()) {
                                    out.count("degraded.ok_equal", 1);
                                } else {
                                    out.count("degraded.ok_different", 1);
                                }
                            }
                            Err(_) => out.count("degraded.err", 1),
                        }
                        (None, false)
                    }
                }
                Err(msg) => {
                    if retryable {
                        out.violate(sig(&fam, "round_trip", panic_kind(&msg), shape), format!("{}: the round trip panicked under retryable faults: {msg}", x.kind()));
                    } else {
                        out.count("degraded.panic", 1);
                    }
                    (None, false)
                }
            }
        }
    };
    if let (Some(y), true) = (y, obligations) {
        // equal
        match catch(|| y.eq_dyn(x.as_ref())) {
            Ok(true) => {}
            Ok(false) => out.violate(sig(&fam, "eq", "not_equal", shape), format!("{}: the deserialized value does not compare equal to the original", x.kind())),
            Err(msg) => out.violate(sig(&fam, "eq", panic_kind(&msg), shape), format!("{}: comparing panicked: {msg}", x.kind())),
        }
        // byte-identical when serialized again
        match catch(|| ser_vec(y.as_ref(), cfg)) {
            Ok(Ok(b)) => {
                if b != bytes0 {
                    out.violate(sig(&fam, "reserialize", "bytes_differ", shape), format!("{}: serializing the deserialized value gives different bytes", x.kind()));
                }
            }
            Ok(Err(e)) => out.violate(sig(&fam, "reserialize", "encode_error", shape), format!("{}: {e}", x.kind())),
            Err(msg) => out.violate(sig(&fam, "reserialize", panic_kind(&msg), shape), format!("{}: {msg}", x.kind())),
        }
        // every query answered identically
        let mut qrng = Rng::new(case.qseed);
        let qs = gen_queries(&case.spec, &mut qrng, case.n_queries);
        for q in &qs {
            let a = catch(|| x.answer(q)).unwrap_or_else(A::Panic);
            let b = catch(|| y.answer(q)).unwrap_or_else(A::Panic);
            a.digest(&mut digest);
            if a != b {
                let op = format!("{q:?}");
                let op = op.split('(').next().unwrap().to_lowercase();
                out.violate(
                    sig(&fam, &op, "answers_differ", shape),
                    format!("{}: {q:?} is {a:?} on the original and {b:?} on the deserialized value", x.kind()),
                );
            }
        }
        out.count("queries_compared", qs.len() as u64);
    }
    let _ = qwt::verif::take_probes();
    let mut fp = Digest::default();
    fp.str(&case.spec.kind_name());
    fp.u64(case.cfg as u64);
    if let Some(p) = &case.plan {
        let kinds: std::collections::BTreeSet<String> = p
            .write_faults
            .values()
            .map(|f| format!("w{f:?}"))
            .chain(p.read_faults.values().map(|f| format!("r{f:?}")))
            .collect();
        for k in kinds {
            fp.str(&k);
        }
        fp.u64(p.sync as u64 + 2 * p.crash.is_some() as u64 + 4 * p.bufwriter.is_some() as u64 + 8 * p.bufreader.is_some() as u64);
    }
    fp.u64(fnv(&(bytes0.len() as u64 / 512).to_le_bytes()));
    out.fps.push(fp.0);
    out.digest = digest.0;
    out
}
